//! replay: evaluates one operation of the real crate on concrete inputs.
//! stdin: one request per line  `<type> <fn> <n_operands> <parts of operand 1 ...> | <scalars...>`  (whitespace separated,
//! `nan`-free decimal / hex floats written with {:e}); a part given as `_` is an absent (None) derivative part (vector types).
//! stdout: one line per request: the parts of the result(s) in declaration order, `_` for an absent part, or `PANIC <msg>`.
use nalgebra::{SMatrix, SVector};
use num_dual::*;
use num_traits::{Inv, One, Signed, Zero};
use std::io::BufRead;

trait Parts: Sized + Clone {
    const N: usize;
    fn from_parts(p: &[Option<f64>]) -> Self;
    fn parts(&self) -> Vec<Option<f64>>;
}

impl Parts for f64 {
    const N: usize = 1;
    fn from_parts(p: &[Option<f64>]) -> Self { p[0].unwrap() }
    fn parts(&self) -> Vec<Option<f64>> { vec![Some(*self)] }
}
impl Parts for Dual64 {
    const N: usize = 2;
    fn from_parts(p: &[Option<f64>]) -> Self { Dual64::new(p[0].unwrap(), p[1].unwrap()) }
    fn parts(&self) -> Vec<Option<f64>> { vec![Some(self.re), Some(self.eps)] }
}
impl Parts for Dual2_64 {
    const N: usize = 3;
    fn from_parts(p: &[Option<f64>]) -> Self { Dual2_64::new(p[0].unwrap(), p[1].unwrap(), p[2].unwrap()) }
    fn parts(&self) -> Vec<Option<f64>> { vec![Some(self.re), Some(self.v1), Some(self.v2)] }
}
impl Parts for Dual3_64 {
    const N: usize = 4;
    fn from_parts(p: &[Option<f64>]) -> Self { Dual3_64::new(p[0].unwrap(), p[1].unwrap(), p[2].unwrap(), p[3].unwrap()) }
    fn parts(&self) -> Vec<Option<f64>> { vec![Some(self.re), Some(self.v1), Some(self.v2), Some(self.v3)] }
}
impl Parts for HyperDual64 {
    const N: usize = 4;
    fn from_parts(p: &[Option<f64>]) -> Self { HyperDual64::new(p[0].unwrap(), p[1].unwrap(), p[2].unwrap(), p[3].unwrap()) }
    fn parts(&self) -> Vec<Option<f64>> { vec![Some(self.re), Some(self.eps1), Some(self.eps2), Some(self.eps1eps2)] }
}
impl Parts for HyperHyperDual64 {
    const N: usize = 8;
    fn from_parts(p: &[Option<f64>]) -> Self {
        let q: Vec<f64> = p.iter().map(|x| x.unwrap()).collect();
        HyperHyperDual64::new(q[0], q[1], q[2], q[3], q[4], q[5], q[6], q[7])
    }
    fn parts(&self) -> Vec<Option<f64>> {
        vec![self.re, self.eps1, self.eps2, self.eps3, self.eps1eps2, self.eps1eps3, self.eps2eps3, self.eps1eps2eps3].into_iter().map(Some).collect()
    }
}
type DD = Dual<Dual64, f64>;
impl Parts for DD {
    const N: usize = 4;
    fn from_parts(p: &[Option<f64>]) -> Self { Dual::new(Dual64::new(p[0].unwrap(), p[1].unwrap()), Dual64::new(p[2].unwrap(), p[3].unwrap())) }
    fn parts(&self) -> Vec<Option<f64>> { vec![Some(self.re.re), Some(self.re.eps), Some(self.eps.re), Some(self.eps.eps)] }
}
// vector types with dimension 2: matrix parts in row-major order; `_` marks an absent (None) part
use nalgebra::{Const, OMatrix};
fn opt<const R: usize, const C: usize>(d: &Derivative<f64, f64, Const<R>, Const<C>>) -> Option<OMatrix<f64, Const<R>, Const<C>>> {
    if *d == Derivative::none() { None } else { Some(d.clone().unwrap_generic(Const::<R>, Const::<C>)) }
}
fn push<const R: usize, const C: usize>(v: &mut Vec<Option<f64>>, d: &Derivative<f64, f64, Const<R>, Const<C>>) {
    match opt(d) {
        Some(m) => { for i in 0..R { for j in 0..C { v.push(Some(m[(i, j)])); } } }
        None => { for _ in 0..R * C { v.push(None); } }
    }
}
fn mk<const R: usize, const C: usize>(p: &[Option<f64>]) -> Derivative<f64, f64, Const<R>, Const<C>> {
    if p[0].is_none() { return Derivative::none(); }
    let mut m = SMatrix::<f64, R, C>::zeros();
    for i in 0..R { for j in 0..C { m[(i, j)] = p[i * C + j].unwrap(); } }
    Derivative::some(m)
}
type DV = DualSVec64<2>;
impl Parts for DV {
    const N: usize = 3;
    fn from_parts(p: &[Option<f64>]) -> Self { DualVec::new(p[0].unwrap(), mk::<2, 1>(&p[1..3])) }
    fn parts(&self) -> Vec<Option<f64>> { let mut v = vec![Some(self.re)]; push(&mut v, &self.eps); v }
}
type D2V = Dual2SVec64<2>;
impl Parts for D2V {
    const N: usize = 7;
    fn from_parts(p: &[Option<f64>]) -> Self { Dual2Vec::new(p[0].unwrap(), mk::<1, 2>(&p[1..3]), mk::<2, 2>(&p[3..7])) }
    fn parts(&self) -> Vec<Option<f64>> { let mut v = vec![Some(self.re)]; push(&mut v, &self.v1); push(&mut v, &self.v2); v }
}
type HDV = HyperDualSVec64<2, 2>;
impl Parts for HDV {
    const N: usize = 9;
    fn from_parts(p: &[Option<f64>]) -> Self { HyperDualVec::new(p[0].unwrap(), mk::<2, 1>(&p[1..3]), mk::<1, 2>(&p[3..5]), mk::<2, 2>(&p[5..9])) }
    fn parts(&self) -> Vec<Option<f64>> { let mut v = vec![Some(self.re)]; push(&mut v, &self.eps1); push(&mut v, &self.eps2); push(&mut v, &self.eps1eps2); v }
}

fn run<D>(f: &str, ops: &[Vec<Option<f64>>], sc: &[f64]) -> Result<Vec<Vec<Option<f64>>>, String>
where
    D: DualNum<f64> + Parts,
    for<'a> &'a D: std::ops::Add<&'a D, Output = D> + std::ops::Sub<&'a D, Output = D> + std::ops::Mul<&'a D, Output = D> + std::ops::Div<&'a D, Output = D> + std::ops::Neg<Output = D>,
    for<'a> &'a D: std::ops::Add<D, Output = D> + std::ops::Sub<D, Output = D> + std::ops::Mul<D, Output = D> + std::ops::Div<D, Output = D>,
{
    let a = || D::from_parts(&ops[0]);
    let b = || D::from_parts(&ops[1]);
    let c = || D::from_parts(&ops[2]);
    let one = |x: D| Ok(vec![x.parts()]);
    match f {
        "recip" => one(a().recip()), "sqrt" => one(a().sqrt()), "cbrt" => one(a().cbrt()), "exp" => one(a().exp()), "exp2" => one(a().exp2()),
        "exp_m1" => one(a().exp_m1()), "ln" => one(a().ln()), "log2" => one(a().log2()), "log10" => one(a().log10()), "ln_1p" => one(a().ln_1p()),
        "sin" => one(a().sin()), "cos" => one(a().cos()), "tan" => one(a().tan()), "asin" => one(a().asin()), "acos" => one(a().acos()), "atan" => one(a().atan()),
        "sinh" => one(a().sinh()), "cosh" => one(a().cosh()), "tanh" => one(a().tanh()), "asinh" => one(a().asinh()), "acosh" => one(a().acosh()), "atanh" => one(a().atanh()),
        "sph_j0" => one(a().sph_j0()), "sph_j1" => one(a().sph_j1()), "sph_j2" => one(a().sph_j2()),
        "abs" => one(a().abs()), "signum" => one(a().signum()), "inv" => one(a().inv()),
        "neg_o" => one(-a()), "neg_r" => one(-&a()),
        "sin_cos" => { let (s, c) = a().sin_cos(); Ok(vec![s.parts(), c.parts()]) }
        "powi" => one(a().powi(sc[0] as i32)), "powf" => one(a().powf(sc[0])), "log" => one(a().log(sc[0])),
        "powd" => one(a().powd(b())), "atan2" => one(a().atan2(b())), "mul_add" => one(a().mul_add(b(), c())),
        "add_oo" => one(a() + b()), "sub_oo" => one(a() - b()), "mul_oo" => one(a() * b()), "div_oo" => one(a() / b()),
        "add_or" => one(a() + &b()), "sub_or" => one(a() - &b()), "mul_or" => one(a() * &b()), "div_or" => one(a() / &b()),
        "add_ro" => one(&a() + b()), "sub_ro" => one(&a() - b()), "mul_ro" => one(&a() * b()), "div_ro" => one(&a() / b()),
        "add_rr" => one(&a() + &b()), "sub_rr" => one(&a() - &b()), "mul_rr" => one(&a() * &b()), "div_rr" => one(&a() / &b()),
        "add_assign_oo" => { let mut x = a(); x += b(); one(x) } "sub_assign_oo" => { let mut x = a(); x -= b(); one(x) }
        "mul_assign_oo" => { let mut x = a(); x *= b(); one(x) } "div_assign_oo" => { let mut x = a(); x /= b(); one(x) }
        "add_of" => one(a() + sc[0]), "sub_of" => one(a() - sc[0]), "mul_of" => one(a() * sc[0]), "div_of" => one(a() / sc[0]),
        "add_assign_of" => { let mut x = a(); x += sc[0]; one(x) } "sub_assign_of" => { let mut x = a(); x -= sc[0]; one(x) }
        "mul_assign_of" => { let mut x = a(); x *= sc[0]; one(x) } "div_assign_of" => { let mut x = a(); x /= sc[0]; one(x) }
        "from" => one(D::from(sc[0])), "zero" => one(D::zero()), "one" => one(D::one()),
        "clone" => one(a().clone()),
        _ => Err(format!("unknown function {f}")),
    }
}

fn run_f64(f: &str, ops: &[Vec<Option<f64>>], sc: &[f64]) -> Result<Vec<Vec<Option<f64>>>, String> {
    let x = ops[0][0].unwrap();
    let one = |v: f64| Ok(vec![vec![Some(v)]]);
    match f {
        "recip" => one(DualNum::recip(&x)), "sqrt" => one(DualNum::sqrt(&x)), "cbrt" => one(DualNum::cbrt(&x)), "exp" => one(DualNum::exp(&x)), "exp2" => one(DualNum::exp2(&x)),
        "exp_m1" => one(DualNum::exp_m1(&x)), "ln" => one(DualNum::ln(&x)), "log2" => one(DualNum::log2(&x)), "log10" => one(DualNum::log10(&x)), "ln_1p" => one(DualNum::ln_1p(&x)),
        "sin" => one(DualNum::sin(&x)), "cos" => one(DualNum::cos(&x)), "tan" => one(DualNum::tan(&x)), "asin" => one(DualNum::asin(&x)), "acos" => one(DualNum::acos(&x)), "atan" => one(DualNum::atan(&x)),
        "sinh" => one(DualNum::sinh(&x)), "cosh" => one(DualNum::cosh(&x)), "tanh" => one(DualNum::tanh(&x)), "asinh" => one(DualNum::asinh(&x)), "acosh" => one(DualNum::acosh(&x)), "atanh" => one(DualNum::atanh(&x)),
        "sph_j0" => one(DualNum::sph_j0(&x)), "sph_j1" => one(DualNum::sph_j1(&x)), "sph_j2" => one(DualNum::sph_j2(&x)),
        "powi" => one(DualNum::powi(&x, sc[0] as i32)), "powf" => one(DualNum::powf(&x, sc[0])), "powd" => one(DualNum::powd(&x, ops[1][0].unwrap())), "log" => one(DualNum::log(&x, sc[0])),
        "atan2" => one(DualNum::atan2(&x, ops[1][0].unwrap())), "mul_add" => one(DualNum::mul_add(&x, ops[1][0].unwrap(), ops[2][0].unwrap())),
        "sin_cos" => { let (s, c) = DualNum::sin_cos(&x); Ok(vec![vec![Some(s)], vec![Some(c)]]) }
        _ => Err(format!("unknown function {f}")),
    }
}

fn disp<D: Parts + std::fmt::Display>(ops: &[Vec<Option<f64>>]) -> Result<String, String> { Ok(format!("{}", D::from_parts(&ops[0]))) }

/// the Display rendering of a value (C18)
fn display_of(ty: &str, ops: &[Vec<Option<f64>>]) -> Result<String, String> {
    match ty {
        "Dual" => disp::<Dual64>(ops),
        "Dual2" => disp::<Dual2_64>(ops),
        "Dual3" => disp::<Dual3_64>(ops),
        "HyperDual" => disp::<HyperDual64>(ops),
        "HyperHyperDual" => disp::<HyperHyperDual64>(ops),
        "Dual__Dual" => disp::<DD>(ops),
        "DualVec" => disp::<DV>(ops),
        "Dual2Vec" => disp::<D2V>(ops),
        "HyperDualVec" => disp::<HDV>(ops),
        _ => Err(format!("no Display for {ty}")),
    }
}

fn dispatch(ty: &str, f: &str, ops: &[Vec<Option<f64>>], sc: &[f64]) -> Result<Vec<Vec<Option<f64>>>, String> {
    match ty {
        "F64" => run_f64(f, ops, sc),
        "Dual" => run::<Dual64>(f, ops, sc),
        "Dual2" => run::<Dual2_64>(f, ops, sc),
        "Dual3" => run::<Dual3_64>(f, ops, sc),
        "HyperDual" => run::<HyperDual64>(f, ops, sc),
        "HyperHyperDual" => run::<HyperHyperDual64>(f, ops, sc),
        "Dual__Dual" => run::<DD>(f, ops, sc),
        "DualVec" => run::<DV>(f, ops, sc),
        "Dual2Vec" => run::<D2V>(f, ops, sc),
        "HyperDualVec" => run::<HDV>(f, ops, sc),
        _ => Err(format!("unknown type {ty}")),
    }
}

fn main() {
    std::panic::set_hook(Box::new(|_| {}));
    let stdin = std::io::stdin();
    for line in stdin.lock().lines() {
        let line = line.unwrap();
        let toks: Vec<&str> = line.split_whitespace().collect();
        if toks.len() < 3 { continue; }
        let (ty, f) = (toks[0].to_string(), toks[1].to_string());
        let nops: usize = toks[2].parse().unwrap();
        let mut vals: Vec<Option<f64>> = vec![];
        let mut sc: Vec<f64> = vec![];
        let mut after = false;
        for t in &toks[3..] {
            if *t == "|" { after = true; continue; }
            if after { sc.push(t.parse().unwrap()); } else { vals.push(if *t == "_" { None } else { Some(t.parse().unwrap()) }); }
        }
        let per = if nops == 0 { 0 } else { vals.len() / nops };
        let ops: Vec<Vec<Option<f64>>> = (0..nops).map(|k| vals[k * per..(k + 1) * per].to_vec()).collect();
        if f == "display" {
            match std::panic::catch_unwind(|| display_of(&ty, &ops)) {
                Ok(Ok(t)) => println!("STR {}", t.replace('\\', "\\\\").replace('\n', "\\n")),
                Ok(Err(e)) => println!("ERR {e}"),
                Err(_) => println!("PANIC"),
            }
            continue;
        }
        let r = std::panic::catch_unwind(|| dispatch(&ty, &f, &ops, &sc));
        match r {
            Ok(Ok(rs)) => {
                let txt: Vec<String> = rs.iter().map(|r| r.iter().map(|x| match x { Some(v) => format!("{:e}", v), None => "_".to_string() }).collect::<Vec<_>>().join(" ")).collect();
                println!("OK {}", txt.join(" ; "));
            }
            Ok(Err(e)) => println!("ERR {e}"),
            Err(_) => println!("PANIC"),
        }
    }
}
