"""Independent numeric oracle for the replay of Verus-reported violations on the real code.

Truncated Taylor arithmetic implemented from scratch as a nilpotent polynomial algebra over Python floats; elementary
functions are composed from their *power series* (exp, ln, sin, cos, binomial series) and, for the inverse functions,
from the termwise integral of the algebraic derivative -- not from the closed-form derivative tables the crate (and the
contract tables) use.  Used only to turn an obligation the verifier has already failed into a concrete failing input."""
import itertools
import math


class Alg:
    """polynomials in n nilpotent variables, truncated by `keep(exponent tuple)`"""

    def __init__(self, nvars, keep):
        self.n, self.keep = nvars, keep
        self.zero_mono = (0,) * nvars

    def const(self, c):
        return {self.zero_mono: float(c)}

    def var(self, i, c=1.0):
        m = tuple(1 if k == i else 0 for k in range(self.n))
        return {m: float(c)}

    def add(self, a, b):
        r = dict(a)
        for m, c in b.items():
            r[m] = r.get(m, 0.0) + c
        return r

    def scale(self, a, s):
        return {m: c * s for m, c in a.items()}

    def sub(self, a, b):
        return self.add(a, self.scale(b, -1.0))

    def mul(self, a, b):
        r = {}
        for m1, c1 in a.items():
            for m2, c2 in b.items():
                m = tuple(x + y for x, y in zip(m1, m2))
                if self.keep(m):
                    r[m] = r.get(m, 0.0) + c1 * c2
        return r

    def re(self, a):
        return a.get(self.zero_mono, 0.0)

    def nil(self, a):
        r = dict(a)
        r.pop(self.zero_mono, None)
        return r

    def series(self, a, coeffs):
        """sum_k coeffs[k] * nil(a)^k  (nilpotent: at most 4 terms needed)"""
        d = self.nil(a)
        out = self.const(coeffs[0])
        p = self.const(1.0)
        for k in range(1, len(coeffs)):
            p = self.mul(p, d)
            if not p:
                break
            out = self.add(out, self.scale(p, coeffs[k]))
        return out

    # --- elementary functions from power series -------------------------------------------------
    def powr(self, a, p):
        x = self.re(a)
        if x == 0.0:
            raise ValueError("pow at 0")
        base = (abs(x) ** p) * (1.0 if x > 0 or float(p).is_integer() and int(p) % 2 == 0 else (-1.0 if float(p).is_integer() else float("nan")))
        if x < 0 and not float(p).is_integer():
            raise ValueError("negative base")
        # (x+d)^p = x^p * sum binom(p,k) (d/x)^k
        co, b = [], 1.0
        for k in range(5):
            co.append(b / (x ** k))
            b = b * (p - k) / (k + 1)
        return self.scale(self.series(a, co), base)

    def recip(self, a):
        return self.powr(a, -1.0)

    def div(self, a, b):
        return self.mul(a, self.recip(b))

    def sqrt(self, a):
        return self.powr(a, 0.5)

    def cbrt(self, a):
        x = self.re(a)
        c = math.copysign(abs(x) ** (1.0 / 3.0), x)
        co, b = [], 1.0
        p = 1.0 / 3.0
        for k in range(5):
            co.append(b / (x ** k))
            b = b * (p - k) / (k + 1)
        return self.scale(self.series(a, co), c)

    def exp(self, a):
        e = math.exp(self.re(a))
        return self.scale(self.series(a, [1.0, 1.0, 0.5, 1.0 / 6.0, 1.0 / 24.0]), e)

    def ln(self, a):
        x = self.re(a)
        co = [math.log(x)] + [(-1.0) ** (k + 1) / (k * x ** k) for k in range(1, 5)]
        return self.series(a, co)

    def sin(self, a):
        x = self.re(a)
        s, c = math.sin(x), math.cos(x)
        return self.series(a, [s, c, -s / 2, -c / 6, s / 24])

    def cos(self, a):
        x = self.re(a)
        s, c = math.sin(x), math.cos(x)
        return self.series(a, [c, -s, -c / 2, s / 6, c / 24])

    def sinh(self, a):
        x = self.re(a)
        s, c = math.sinh(x), math.cosh(x)
        return self.series(a, [s, c, s / 2, c / 6, s / 24])

    def cosh(self, a):
        x = self.re(a)
        s, c = math.sinh(x), math.cosh(x)
        return self.series(a, [c, s, c / 2, s / 6, c / 24])

    def integrate_from_derivative(self, a, f0, dfun):
        """g(a) for g with value f0 at re(a) and derivative function dfun (acting on one-variable jets):
        Taylor coefficients of g' at x are read off a univariate jet, then integrated termwise"""
        x = self.re(a)
        uni = Alg(1, lambda m: m[0] <= 3)
        w = dfun(uni, uni.add(uni.const(x), uni.var(0)))  # g'(x + t) = sum w_k t^k
        co = [f0] + [w.get((k,), 0.0) / (k + 1) for k in range(0, 4)]
        return self.series(a, co)

    def one(self):
        return self.const(1.0)

    def fn(self, name, a, *extra):
        A = self
        x = A.re(a)
        sq = lambda u, t: u.mul(t, t)  # noqa: E731
        if name == "recip" or name == "inv":
            return A.recip(a)
        if name == "sqrt":
            return A.sqrt(a)
        if name == "cbrt":
            return A.cbrt(a)
        if name == "exp":
            return A.exp(a)
        if name == "exp2":
            return A.exp(A.scale(a, math.log(2.0)))
        if name == "exp_m1":
            r = A.sub(A.exp(a), A.one())
            r[A.zero_mono] = math.expm1(x)  # accurate real part for tiny arguments (the derivative parts are exp's)
            return r
        if name == "ln":
            return A.ln(a)
        if name == "log2":
            return A.scale(A.ln(a), 1.0 / math.log(2.0))
        if name == "log10":
            return A.scale(A.ln(a), 1.0 / math.log(10.0))
        if name == "log":
            return A.scale(A.ln(a), 1.0 / math.log(extra[0]))
        if name == "ln_1p":
            r = A.ln(A.add(a, A.one()))
            r[A.zero_mono] = math.log1p(x)  # accurate real part for tiny arguments
            return r
        if name == "sin":
            return A.sin(a)
        if name == "cos":
            return A.cos(a)
        if name == "tan":
            return A.div(A.sin(a), A.cos(a))
        if name == "sinh":
            return A.sinh(a)
        if name == "cosh":
            return A.cosh(a)
        if name == "tanh":
            return A.div(A.sinh(a), A.cosh(a))
        if name == "asin":
            return A.integrate_from_derivative(a, math.asin(x), lambda u, t: u.powr(u.sub(u.one(), sq(u, t)), -0.5))
        if name == "acos":
            return A.integrate_from_derivative(a, math.acos(x), lambda u, t: u.scale(u.powr(u.sub(u.one(), sq(u, t)), -0.5), -1.0))
        if name == "atan":
            return A.integrate_from_derivative(a, math.atan(x), lambda u, t: u.recip(u.add(u.one(), sq(u, t))))
        if name == "asinh":
            return A.integrate_from_derivative(a, math.asinh(x), lambda u, t: u.powr(u.add(u.one(), sq(u, t)), -0.5))
        if name == "acosh":
            return A.integrate_from_derivative(a, math.acosh(x), lambda u, t: u.powr(u.sub(sq(u, t), u.one()), -0.5))
        if name == "atanh":
            return A.integrate_from_derivative(a, math.atanh(x), lambda u, t: u.recip(u.sub(u.one(), sq(u, t))))
        if name == "powi":
            n = int(extra[0])
            if n == 0:
                return A.one()
            if x == 0.0:
                r = A.one()
                for _ in range(n):
                    r = A.mul(r, a)
                return r
            return A.powr(a, float(n))
        if name == "powf":
            p = float(extra[0])
            if p == 0.0:
                return A.one()
            if x == 0.0 and p.is_integer() and p > 0:
                r = A.one()
                for _ in range(int(p)):
                    r = A.mul(r, a)
                return r
            return A.powr(a, p)
        if name == "abs":
            return a if x > 0 else A.scale(a, -1.0)
        if name == "signum":
            return A.const(1.0 if x > 0 else -1.0)
        if name in ("sph_j0", "sph_j1", "sph_j2"):
            k = int(name[-1])
            if abs(x) < 0.5:
                # power series  j_n(X) = sum_m (-1)^m X^(2m+n) / (2^m m! (2m+2n+1)!!)  evaluated in the algebra (no cancellation)
                out = A.const(0.0)
                x2 = A.mul(a, a)
                p = A.one()
                for _ in range(k):
                    p = A.mul(p, a)
                for m_ in range(0, 14):
                    dfac = 1.0
                    for q in range(1, 2 * m_ + 2 * k + 2, 2):
                        dfac *= q
                    coef = (-1.0) ** m_ / ((2.0 ** m_) * math.factorial(m_) * dfac)
                    out = A.add(out, A.scale(p, coef))
                    p = A.mul(p, x2)
                return out
            s, c = A.sin(a), A.cos(a)
            if k == 0:
                return A.div(s, a)
            if k == 1:
                return A.div(A.sub(s, A.mul(a, c)), A.mul(a, a))
            a2 = A.mul(a, a)
            num = A.sub(A.mul(A.sub(A.const(3.0), a2), s), A.scale(A.mul(a, c), 3.0))
            return A.div(num, A.mul(a2, a))
        raise KeyError(name)

    def atan2(self, y, x):
        """bivariate: atan2(y0, x0) + series of d = atan(y/x) (or -atan(x/y) ) in the nilpotent parts"""
        y0, x0 = self.re(y), self.re(x)
        if abs(x0) >= abs(y0):
            r = self.fn("atan", self.div(y, x))
        else:
            r = self.scale(self.fn("atan", self.div(x, y)), -1.0)
        r = dict(r)
        r[self.zero_mono] = math.atan2(y0, x0)
        return r


def perm_count(m):
    r = 1
    for e in m:
        r *= math.factorial(e)
    return r


class TypeDesc:
    """mapping between the parts of a dual number type (in the order used by the replay binary) and algebra monomials"""

    def __init__(self, name, nvars, keep, parts):
        # parts: list of (monomial, derivative multiplier)  -- part value = multiplier * coefficient
        self.name, self.alg, self.parts = name, Alg(nvars, keep), parts

    def to_alg(self, vals):
        a = {}
        for (m, mult), v in zip(self.parts, vals):
            v = 0.0 if v is None else v
            a[m] = a.get(m, 0.0) + v / mult
        return a

    def from_alg(self, a):
        return [a.get(m, 0.0) * mult for m, mult in self.parts]


def _types():
    T = {}
    T["F64"] = TypeDesc("F64", 0, lambda m: True, [((), 1.0)])
    T["Dual"] = TypeDesc("Dual", 1, lambda m: m[0] <= 1, [((0,), 1.0), ((1,), 1.0)])
    T["Dual2"] = TypeDesc("Dual2", 1, lambda m: m[0] <= 2, [((0,), 1.0), ((1,), 1.0), ((2,), 2.0)])
    T["Dual3"] = TypeDesc("Dual3", 1, lambda m: m[0] <= 3, [((0,), 1.0), ((1,), 1.0), ((2,), 2.0), ((3,), 6.0)])
    hd = [((0, 0), 1.0), ((1, 0), 1.0), ((0, 1), 1.0), ((1, 1), 1.0)]
    T["HyperDual"] = TypeDesc("HyperDual", 2, lambda m: max(m) <= 1, hd)
    T["Dual__Dual"] = TypeDesc("Dual__Dual", 2, lambda m: max(m) <= 1, hd)
    T["HyperHyperDual"] = TypeDesc("HyperHyperDual", 3, lambda m: max(m) <= 1,
                                   [((0, 0, 0), 1.0), ((1, 0, 0), 1.0), ((0, 1, 0), 1.0), ((0, 0, 1), 1.0), ((1, 1, 0), 1.0), ((1, 0, 1), 1.0), ((0, 1, 1), 1.0), ((1, 1, 1), 1.0)])
    T["DualVec"] = TypeDesc("DualVec", 2, lambda m: sum(m) <= 1, [((0, 0), 1.0), ((1, 0), 1.0), ((0, 1), 1.0)])
    # Dual2Vec<2>: re, v1 (1x2), v2 (2x2 row-major, symmetric Hessian: v2_ij = d^2/dx_i dx_j)
    T["Dual2Vec"] = TypeDesc("Dual2Vec", 2, lambda m: sum(m) <= 2,
                             [((0, 0), 1.0), ((1, 0), 1.0), ((0, 1), 1.0), ((2, 0), 2.0), ((1, 1), 1.0), ((1, 1), 1.0), ((0, 2), 2.0)])
    # HyperDualVec<2,2>: re, eps1 (2), eps2 (2), eps1eps2 (2x2 row-major): variables x1 x2 | y1 y2
    kp = lambda m: m[0] + m[1] <= 1 and m[2] + m[3] <= 1  # noqa: E731
    T["HyperDualVec"] = TypeDesc("HyperDualVec", 4, kp,
                                 [((0, 0, 0, 0), 1.0), ((1, 0, 0, 0), 1.0), ((0, 1, 0, 0), 1.0), ((0, 0, 1, 0), 1.0), ((0, 0, 0, 1), 1.0),
                                  ((1, 0, 1, 0), 1.0), ((1, 0, 0, 1), 1.0), ((0, 1, 1, 0), 1.0), ((0, 1, 0, 1), 1.0)])
    return T


TYPES = _types()


def d2v_to_alg(td, vals):
    """Dual2Vec input: the off-diagonal Hessian entries v2_01 and v2_10 both describe the x1 x2 coefficient; the crate keeps
    them separately, the oracle symmetrises (inputs generated by the replay are symmetric)"""
    a = {}
    for idx, ((m, mult), v) in enumerate(zip(td.parts, vals)):
        v = 0.0 if v is None else v
        if td.name == "Dual2Vec" and idx == 5:
            continue
        a[m] = a.get(m, 0.0) + v / mult
    return a


def expected(ty, fn, ops, scalars):
    """returns list of result part lists (one per result) or raises ValueError when outside the oracle's domain"""
    td = TYPES[ty]
    A = td.alg
    conv = (lambda v: d2v_to_alg(td, v)) if ty == "Dual2Vec" else td.to_alg
    xs = [conv(o) for o in ops]
    out = None
    base = fn
    for suf in ("_oo", "_or", "_ro", "_rr"):
        if fn.endswith(suf):
            base = fn[: -len(suf)]
    if base in ("add", "add_assign"):
        out = A.add(xs[0], xs[1])
    elif base in ("sub", "sub_assign"):
        out = A.sub(xs[0], xs[1])
    elif base in ("mul", "mul_assign"):
        out = A.mul(xs[0], xs[1])
    elif base in ("div", "div_assign"):
        out = A.div(xs[0], xs[1])
    elif fn in ("add_of", "add_assign_of"):
        out = A.add(xs[0], A.const(scalars[0]))
    elif fn in ("sub_of", "sub_assign_of"):
        out = A.sub(xs[0], A.const(scalars[0]))
    elif fn in ("mul_of", "mul_assign_of"):
        out = A.scale(xs[0], scalars[0])
    elif fn in ("div_of", "div_assign_of"):
        out = A.scale(xs[0], 1.0 / scalars[0])
    elif fn in ("neg_o", "neg_r"):
        out = A.scale(xs[0], -1.0)
    elif fn == "clone":
        out = xs[0]
    elif fn == "from":
        out = A.const(scalars[0])
    elif fn == "zero":
        out = A.const(0.0)
    elif fn == "one":
        out = A.const(1.0)
    elif fn == "mul_add":
        out = A.add(A.mul(xs[0], xs[1]), xs[2])
    elif fn == "powd":
        out = A.exp(A.mul(A.ln(xs[0]), xs[1]))
    elif fn == "atan2":
        out = A.atan2(xs[0], xs[1])
    elif fn == "sin_cos":
        return [td.from_alg(A.sin(xs[0])), td.from_alg(A.cos(xs[0]))]
    else:
        out = A.fn(fn, xs[0], *scalars)
    return [td.from_alg(out)]
