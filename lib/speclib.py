"""Specification library (DESIGN.md §3): truncated Taylor (jet) algebras written from the
property statements and textbook calculus, never from the crate's formulas.

Base definition (trusted): first-order dual numbers over a commutative ring,
    (a,a')+(b,b') = (a+b, a'+b'),   (a,a')*(b,b') = (ab, a'b + ab'),   g((a,a')) = (g(a), g'(a) a').
HD  := D(D(R))      (hyper-dual: parts re, eps1, eps2, eps1eps2)
HHD := D(D(D(R)))   (hyper-hyper-dual, 8 parts)
are *literally* nestings of the base operations.  J2 / J3 (Dual2 / Dual3: value, 1st, 2nd, 3rd
derivative along one direction) use the Leibniz / Faa di Bruno formulas and are tied to HD / HHD
by the embedding lemmas (C04).

Everything is an inline, real-valued spec fn with flat real arguments (see DESIGN.md §2.1 (3b))."""

SHAPES = {
    "d": ["re", "eps"],
    "j2": ["re", "v1", "v2"],
    "j3": ["re", "v1", "v2", "v3"],
    "hd": ["re", "eps1", "eps2", "eps1eps2"],
    "hhd": ["re", "eps1", "eps2", "eps3", "eps1eps2", "eps1eps3", "eps2eps3", "eps1eps2eps3"],
}
ORDER = {"d": 1, "j2": 2, "j3": 3, "hd": 2, "hhd": 3}
TYPE_SHAPE = {"Dual": "d", "Dual2": "j2", "Dual3": "j3", "HyperDual": "hd", "HyperHyperDual": "hhd"}


def fn(name, params, body):
    ps = ", ".join(f"{p}: real" for p in params)
    return f"#[verifier::inline] pub open spec fn {name}({ps}) -> real {{ {body} }}\n"


def ab(shape):
    return [f"a_{p}" for p in SHAPES[shape]] + [f"b_{p}" for p in SHAPES[shape]]


def generate():
    o = []
    w = o.append
    w("\n// ===================== specification library (DESIGN.md §3) =====================\n")
    # ---------------- D: the base definition -----------------
    P = ab("d")
    w(fn("d_mul_re", P, "a_re * b_re"))
    w(fn("d_mul_eps", P, "a_eps * b_re + a_re * b_eps"))
    L = ["x_re", "x_eps", "g0", "g1"]
    w(fn("d_lift_re", L, "g0"))
    w(fn("d_lift_eps", L, "g1 * x_eps"))
    # ---------------- HD = D(D(R)) -----------------
    P = ab("hd")
    A_a, B_a = "a_re, a_eps1", "a_eps2, a_eps1eps2"
    A_b, B_b = "b_re, b_eps1", "b_eps2, b_eps1eps2"
    w(fn("hd_mul_re", P, f"d_mul_re({A_a}, {A_b})"))
    w(fn("hd_mul_eps1", P, f"d_mul_eps({A_a}, {A_b})"))
    w(fn("hd_mul_eps2", P, f"d_mul_re({B_a}, {A_b}) + d_mul_re({A_a}, {B_b})"))
    w(fn("hd_mul_eps1eps2", P, f"d_mul_eps({B_a}, {A_b}) + d_mul_eps({A_a}, {B_b})"))
    L = ["x_re", "x_eps1", "x_eps2", "x_eps1eps2", "g0", "g1", "g2"]
    GA = "x_re, x_eps1"
    dG = f"d_lift_re({GA}, g1, g2), d_lift_eps({GA}, g1, g2)"
    w(fn("hd_lift_re", L, f"d_lift_re({GA}, g0, g1)"))
    w(fn("hd_lift_eps1", L, f"d_lift_eps({GA}, g0, g1)"))
    w(fn("hd_lift_eps2", L, f"d_mul_re({dG}, x_eps2, x_eps1eps2)"))
    w(fn("hd_lift_eps1eps2", L, f"d_mul_eps({dG}, x_eps2, x_eps1eps2)"))
    # ---------------- HHD = D(HD) in direction 3 -----------------
    P = ab("hhd")
    hp = ["re", "eps1", "eps2", "eps1eps2"]
    Pa = "a_re, a_eps1, a_eps2, a_eps1eps2"
    Qa = "a_eps3, a_eps1eps3, a_eps2eps3, a_eps1eps2eps3"
    Pb = "b_re, b_eps1, b_eps2, b_eps1eps2"
    Qb = "b_eps3, b_eps1eps3, b_eps2eps3, b_eps1eps2eps3"
    qn = {"re": "eps3", "eps1": "eps1eps3", "eps2": "eps2eps3", "eps1eps2": "eps1eps2eps3"}
    for p in hp:
        w(fn(f"hhd_mul_{p}", P, f"hd_mul_{p}({Pa}, {Pb})"))
    for p in hp:
        w(fn(f"hhd_mul_{qn[p]}", P, f"hd_mul_{p}({Qa}, {Pb}) + hd_mul_{p}({Pa}, {Qb})"))
    L = [f"x_{p}" for p in SHAPES["hhd"]] + ["g0", "g1", "g2", "g3"]
    Px = "x_re, x_eps1, x_eps2, x_eps1eps2"
    Qx = "x_eps3, x_eps1eps3, x_eps2eps3, x_eps1eps2eps3"
    dG = ", ".join(f"hd_lift_{p}({Px}, g1, g2, g3)" for p in hp)
    for p in hp:
        w(fn(f"hhd_lift_{p}", L, f"hd_lift_{p}({Px}, g0, g1, g2)"))
    for p in hp:
        w(fn(f"hhd_lift_{qn[p]}", L, f"hd_mul_{p}({dG}, {Qx})"))
    # ---------------- J2, J3: Leibniz and Faa di Bruno -----------------
    P = ab("j2")
    w(fn("j2_mul_re", P, "a_re * b_re"))
    w(fn("j2_mul_v1", P, "a_v1 * b_re + a_re * b_v1"))
    w(fn("j2_mul_v2", P, "a_v2 * b_re + 2real * a_v1 * b_v1 + a_re * b_v2"))
    L = ["x_re", "x_v1", "x_v2", "g0", "g1", "g2"]
    w(fn("j2_lift_re", L, "g0"))
    w(fn("j2_lift_v1", L, "g1 * x_v1"))
    w(fn("j2_lift_v2", L, "g1 * x_v2 + g2 * x_v1 * x_v1"))
    P = ab("j3")
    w(fn("j3_mul_re", P, "a_re * b_re"))
    w(fn("j3_mul_v1", P, "a_v1 * b_re + a_re * b_v1"))
    w(fn("j3_mul_v2", P, "a_v2 * b_re + 2real * a_v1 * b_v1 + a_re * b_v2"))
    w(fn("j3_mul_v3", P, "a_v3 * b_re + 3real * a_v2 * b_v1 + 3real * a_v1 * b_v2 + a_re * b_v3"))
    L = ["x_re", "x_v1", "x_v2", "x_v3", "g0", "g1", "g2", "g3"]
    w(fn("j3_lift_re", L, "g0"))
    w(fn("j3_lift_v1", L, "g1 * x_v1"))
    w(fn("j3_lift_v2", L, "g1 * x_v2 + g2 * x_v1 * x_v1"))
    w(fn("j3_lift_v3", L, "g1 * x_v3 + 3real * g2 * x_v1 * x_v2 + g3 * x_v1 * x_v1 * x_v1"))
    return "".join(o)


def mul_call(shape, part, a, b):
    """spec product part; a, b lists of expressions"""
    return f"{shape}_mul_{part}({', '.join(a)}, {', '.join(b)})"


def lift_call(shape, part, x, g):
    n = ORDER[shape] + 1
    return f"{shape}_lift_{part}({', '.join(x)}, {', '.join(g[:n])})"


if __name__ == "__main__":
    print(generate())
