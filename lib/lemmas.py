"""Generation of the property lemmas (DESIGN.md §2.1 (3b), §3.2, §4) over the mirror functions.

The *statements* come from the properties (Leibniz product, quotient q*b = a, Faa di Bruno lift of
a derivative table, forms agree, ...).  They are instantiated per type / per function from the
extraction metadata, so a function the extractor did not find simply has no lemma and is reported as a
lost anchor by the checker (never silently skipped)."""
from speclib import SHAPES, ORDER, TYPE_SHAPE, mul_call, lift_call

# ----------------------------------------------------------------------------------------------
# derivative tables  T_g(x) = (g0, g1, g2, g3)  in terms of named atoms (DESIGN.md §3.2).
# 'atoms' : let-bindings shared by the four entries
# 'hyps'  : algebraic facts about the atoms that the code==table identity may use (each is an
#           instance of a prelude axiom; the bridge lemma derives it from the property's domain)
# ----------------------------------------------------------------------------------------------
TABLES = {
    "recip": dict(atoms=[("r", "recip_r(x)")], g=["r", "-(r * r)", "2real * r * r * r", "-(6real * r * r * r * r)"]),
    "sqrt": dict(atoms=[("s", "sqrt_r(x)"), ("r", "recip_r(x)")],
                 g=["s", "s * r / 2real", "-(s * r * r) / 4real", "3real * s * r * r * r / 8real"]),
    "cbrt": dict(atoms=[("c", "cbrt_r(x)"), ("r", "recip_r(x)")],
                 g=["c", "c * r / 3real", "-(2real * c * r * r) / 9real", "10real * c * r * r * r / 27real"]),
    "exp": dict(atoms=[("e", "exp_r(x)")], g=["e", "e", "e", "e"]),
    "exp2": dict(atoms=[("e", "exp2_r(x)"), ("l", "ln_r(2real)")], g=["e", "e * l", "e * l * l", "e * l * l * l"]),
    "exp_m1": dict(atoms=[("e", "exp_r(x)")], g=["expm1_r(x)", "e", "e", "e"]),
    "ln": dict(atoms=[("r", "recip_r(x)")], g=["ln_r(x)", "r", "-(r * r)", "2real * r * r * r"]),
    "log": dict(atoms=[("r", "recip_r(x)"), ("k", "recip_r(x) / ln_r(base)")], extra_params=["base"],
                g=["log_r(x, base)", "k", "-(k * r)", "2real * k * r * r"]),
    "log2": dict(atoms=[("r", "recip_r(x)"), ("k", "recip_r(x) / ln_r(2real)")], g=["log2_r(x)", "k", "-(k * r)", "2real * k * r * r"]),
    "log10": dict(atoms=[("r", "recip_r(x)"), ("k", "recip_r(x) / ln_r(10real)")], g=["log10_r(x)", "k", "-(k * r)", "2real * k * r * r"]),
    "ln_1p": dict(atoms=[("r", "recip_r(x + 1real)")], g=["ln1p_r(x)", "r", "-(r * r)", "2real * r * r * r"]),
    "sin": dict(atoms=[("s", "sin_r(x)"), ("c", "cos_r(x)")], g=["s", "c", "-s", "-c"]),
    "cos": dict(atoms=[("s", "sin_r(x)"), ("c", "cos_r(x)")], g=["c", "-s", "-c", "s"]),
    "sinh": dict(atoms=[("s", "sinh_r(x)"), ("c", "cosh_r(x)")], g=["s", "c", "s", "c"]),
    "cosh": dict(atoms=[("s", "sinh_r(x)"), ("c", "cosh_r(x)")], g=["c", "s", "c", "s"]),
    "asin": dict(atoms=[("q", "recip_r(1real - x * x)"), ("w", "sqrt_r(recip_r(1real - x * x))")],
                 g=["asin_r(x)", "w", "x * w * q", "(2real * x * x + 1real) * w * q * q"]),
    "acos": dict(atoms=[("q", "recip_r(1real - x * x)"), ("w", "sqrt_r(recip_r(1real - x * x))")],
                 g=["acos_r(x)", "-w", "-(x * w * q)", "-((2real * x * x + 1real) * w * q * q)"]),
    "atan": dict(atoms=[("q", "recip_r(1real + x * x)")],
                 g=["atan_r(x)", "q", "-(2real * x * q * q)", "(6real * x * x - 2real) * q * q * q"]),
    "asinh": dict(atoms=[("q", "recip_r(1real + x * x)"), ("w", "sqrt_r(recip_r(1real + x * x))")],
                  g=["asinh_r(x)", "w", "-(x * w * q)", "(2real * x * x - 1real) * w * q * q"]),
    "acosh": dict(atoms=[("q", "recip_r(x * x - 1real)"), ("w", "sqrt_r(recip_r(x * x - 1real))")],
                  g=["acosh_r(x)", "w", "-(x * w * q)", "(2real * x * x + 1real) * w * q * q"]),
    "atanh": dict(atoms=[("q", "recip_r(1real - x * x)")],
                  g=["atanh_r(x)", "q", "2real * x * q * q", "(6real * x * x + 2real) * q * q * q"]),
}


def parts_of(meta):
    return [p[0] for p in meta["parts"]]


def fn_by_mname(meta):
    return {f["mname"]: f for f in meta["functions"]}


def reals(names):
    return ", ".join(f"{n}: real" for n in names)


class Lemma:
    def __init__(self, name, params, requires, ensures, prop, what, body="", mode="nl"):
        self.name, self.params, self.requires, self.ensures, self.prop, self.what, self.body = name, params, requires, ensures, prop, what, body
        self.mode = mode  # "nl": flat non-linear lemma (mod nl);  "root": default-mode composition of other lemmas

    def text(self, canary=False):
        req = (" requires " + ", ".join(self.requires)) if self.requires else ""
        if canary:
            return f"pub proof fn canary_{self.name}({self.params}) by(nonlinear_arith){req} ensures false {{}}\n"
        if self.mode == "root":
            ens = " ensures\n    " + ",\n    ".join(self.ensures)
            return f"pub proof fn {self.name}({self.params}){req}{ens}\n{{ {self.body} }}\n"
        # one ensures clause per line: a failing clause is attributed to its part by line number
        ens = " ensures\n    " + ",\n    ".join(self.ensures)
        return f"pub proof fn {self.name}({self.params}) by(nonlinear_arith){req}{ens}\n{{}}\n"


def gen_type_lemmas(meta):
    """returns list[Lemma] for one scalar type"""
    ty = meta["unit"]
    shape = TYPE_SHAPE[ty]
    parts = SHAPES[shape]
    assert parts == parts_of(meta), (parts, parts_of(meta))
    fns = fn_by_mname(meta)
    order = ORDER[shape]
    out = []
    A = [f"a_{p}" for p in parts]
    B = [f"b_{p}" for p in parts]
    X = [f"x_{p}" for p in parts]
    zeros = ["0real"] * (len(parts) - 1)

    def have(m):
        return f"m_{ty}_{m}" in fns

    def m(mn, part, args):
        return f"m_{ty}_{mn}_{part}({', '.join(args)})"

    # ---------------- C02: product / quotient / sum / difference / negation ----------------
    if have("mul_rr"):
        out.append(Lemma(f"lem_{ty}_mul", reals(A + B), [],
                         [f"{m('mul_rr', p, A + B)} == {mul_call(shape, p, A, B)}" for p in parts],
                         ["C02", "C03"], f"&{ty} * &{ty} is the truncated Cauchy (Leibniz) product"))
    if have("div_rr"):
        q = [m("div_rr", p, A + B) for p in parts]
        out.append(Lemma(f"lem_{ty}_div", reals(A + B), ["b_re != 0real", "b_re * recip_r(b_re) == 1real"],
                         [f"{mul_call(shape, p, q, B)} == a_{p}" for p in parts],
                         ["C02", "C03"], f"q = &{ty} / &{ty} satisfies q (x) b == a (quotient rule incl. all mixed parts)"))
    for op, sym in [("add", "+"), ("sub", "-")]:
        if have(f"{op}_rr"):
            out.append(Lemma(f"lem_{ty}_{op}", reals(A + B), [],
                             [f"{m(op + '_rr', p, A + B)} == a_{p} {sym} b_{p}" for p in parts],
                             ["C02", "C03"], f"&{ty} {sym} &{ty} is part-wise"))
    if have("neg_r"):
        out.append(Lemma(f"lem_{ty}_neg", reals(A), [], [f"{m('neg_r', p, A)} == -a_{p}" for p in parts],
                         ["C02", "C03"], f"-&{ty} is part-wise"))
    # ---------------- C08: all syntactic forms agree with the canonical form ----------------
    for op in ["add", "sub", "mul", "div"]:
        for form in ["oo", "or", "ro"]:
            if have(f"{op}_{form}") and have(f"{op}_rr"):
                out.append(Lemma(f"lem_{ty}_{op}_{form}", reals(A + B), [],
                                 [f"{m(op + '_' + form, p, A + B)} == {m(op + '_rr', p, A + B)}" for p in parts],
                                 ["C08"], f"form {form} of {op} equals the borrowed form"))
        if have(f"{op}_assign_oo") and have(f"{op}_rr"):
            out.append(Lemma(f"lem_{ty}_{op}_assign", reals(A + B), [],
                             [f"{m(op + '_assign_oo', p, A + B)} == {m(op + '_rr', p, A + B)}" for p in parts],
                             ["C08", "C07"], f"{op}-assign equals the binary operator"))
    if have("neg_o") and have("neg_r"):
        out.append(Lemma(f"lem_{ty}_neg_o", reals(A), [], [f"{m('neg_o', p, A)} == {m('neg_r', p, A)}" for p in parts], ["C08"], "owned negation"))
    # scalar right-hand operands: equal to the dual op with the scalar lifted to a constant
    C = ["f"] + zeros
    for op in ["add", "sub", "mul"]:
        for form, nm in [("of", op), ("assign_of", op + "-assign")]:
            mn = f"{op}_{form}"
            if have(mn) and have(f"{op}_rr"):
                out.append(Lemma(f"lem_{ty}_{mn}", reals(A + ["f"]), [],
                                 [f"{m(mn, p, A + ['f'])} == {m(op + '_rr', p, A + C)}" for p in parts],
                                 ["C08"], f"{nm} with a scalar equals the dual operation with the scalar lifted to a constant"))
    for mn in ["div_of", "div_assign_of"]:
        if have(mn) and have("div_rr"):
            out.append(Lemma(f"lem_{ty}_{mn}", reals(A + ["f"]), ["f != 0real", "f * recip_r(f) == 1real"],
                             [f"{m(mn, p, A + ['f'])} == {m('div_rr', p, A + C)}" for p in parts],
                             ["C08"], "division by a scalar equals the dual quotient with the scalar lifted to a constant"))
    if have("inv") and have("recip"):
        out.append(Lemma(f"lem_{ty}_inv", reals(A), [], [f"{m('inv', p, A)} == {m('recip', p, A)}" for p in parts], ["C08"], "inv == recip"))
    if have("from"):
        out.append(Lemma(f"lem_{ty}_from", "f: real", [], [f"{m('from', p, ['f'])} == {c}" for p, c in zip(parts, C)], ["C08"], "From<F> lifts to a constant"))
    if have("zero"):
        out.append(Lemma(f"lem_{ty}_zero", "", [], [f"{m('zero', p, [])} == 0real" for p in parts], ["C08"], "zero"))
    if have("one"):
        out.append(Lemma(f"lem_{ty}_one", "", [], [f"{m('one', p, [])} == {c}" for p, c in zip(parts, ['1real'] + zeros)], ["C08"], "one"))
    if have("mul_add") and have("mul_rr"):
        Cc = [f"c_{p}" for p in parts]
        prod = [m("mul_rr", p, A + B) for p in parts]
        out.append(Lemma(f"lem_{ty}_mul_add", reals(A + B + Cc), [],
                         [f"{m('mul_add', p, A + B + Cc)} == {pr} + c_{p}" for p, pr in zip(parts, prod)], ["C08", "C03"], "default mul_add = self*a+b"))
    # ---------------- C01: chain rule and elementary functions ----------------
    G = ["g0", "g1", "g2", "g3"][: order + 1]
    if have("chain_rule"):
        out.append(Lemma(f"lem_{ty}_chain_rule", reals(X + G), [],
                         [f"{m('chain_rule', p, X + G)} == {lift_call(shape, p, X, G)}" for p in parts],
                         ["C01", "C03"], "chain rule = Faa di Bruno lift (nested first-order chain rule)"))
    for g, tab in TABLES.items():
        if not have(g):
            continue
        extra = tab.get("extra_params", [])
        lets = "let x = x_re; " + "".join(f"let {n} = {e}; " for n, e in tab["atoms"])
        ens = []
        for p in parts:
            ens.append("({ " + lets + f"{m(g, p, X + extra)} == {lift_call(shape, p, X, ['(' + t + ')' for t in tab['g']])}" + " })")
        out.append(Lemma(f"lem_{ty}_{g}", reals(X + extra), tab.get("hyps", []), ens, ["C01", "C03"],
                         f"{g}: result jet = lift of the derivative table of {g} at x.re"))
    return out


# ----------------------------------------------------------------------------------------------
# second group: composite functions, sign functions, powers, spherical Bessel
# ----------------------------------------------------------------------------------------------
def tab_g(name, extra=""):
    t = TABLES[name]
    lets = "".join(f"let {n} = {e}; " for n, e in t["atoms"])
    return lets, ["(" + g + ")" for g in t["g"]]


def gen_type_lemmas2(meta):
    ty = meta["unit"]
    shape = TYPE_SHAPE[ty]
    parts = SHAPES[shape]
    fns = fn_by_mname(meta)
    order = ORDER[shape]
    out = []
    X = [f"x_{p}" for p in parts]
    N = [f"n_{p}" for p in parts]
    zeros = ["0real"] * (len(parts) - 1)

    def have(m):
        return f"m_{ty}_{m}" in fns

    def m(mn, part, args):
        return f"m_{ty}_{mn}_{part}({', '.join(args)})"

    def lift(part, x, g):
        return lift_call(shape, part, x, g)

    def lifted(x, g):
        return [lift(p, x, g) for p in parts]

    sin_lets, sin_g = tab_g("sin")
    cos_lets, cos_g = tab_g("cos")
    # tan: Y (x) cos(X) == sin(X)   (defining property of the quotient; no tan table needed)
    if have("tan"):
        Y = [m("tan", p, X) for p in parts]
        ens = ["({ let x = x_re; " + sin_lets + f"{mul_call(shape, p, Y, lifted(X, cos_g))} == {lift(p, X, sin_g)}" + " })" for p in parts]
        out.append(Lemma(f"lem_{ty}_tan", reals(X), ["cos_r(x_re) != 0real", "cos_r(x_re) * recip_r(cos_r(x_re)) == 1real"], ens,
                         ["C01", "C03"], "tan: Y (x) cos(X) == sin(X) as jets (Y = sin X / cos X)"))
    if have("tanh"):
        sl, sg = tab_g("sinh")
        cl, cg = tab_g("cosh")
        Y = [m("tanh", p, X) for p in parts]
        ens = ["({ let x = x_re; " + sl + f"{mul_call(shape, p, Y, lifted(X, cg))} == {lift(p, X, sg)}" + " })" for p in parts]
        out.append(Lemma(f"lem_{ty}_tanh", reals(X), ["cosh_r(x_re) != 0real", "cosh_r(x_re) * recip_r(cosh_r(x_re)) == 1real"], ens,
                         ["C01", "C03"], "tanh: Y (x) cosh(X) == sinh(X) as jets"))
    if have("sin_cos"):
        ens = []
        for p in parts:
            ens.append("({ let x = x_re; " + sin_lets + f"{m('sin_cos', '0_' + p, X)} == {lift(p, X, sin_g)}" + " })")
            ens.append("({ let x = x_re; " + sin_lets + f"{m('sin_cos', '1_' + p, X)} == {lift(p, X, cos_g)}" + " })")
        out.append(Lemma(f"lem_{ty}_sin_cos", reals(X), [], ens, ["C01", "C03"], "sin_cos = (sin, cos) jets"))
    # abs / signum / abs_sub by the sign of the real part
    sign_h = ["x_re != 0real", "x_re > 0real ==> is_positive_r(x_re)", "x_re < 0real ==> !is_positive_r(x_re)"]
    if have("abs"):
        ens = [f"x_re > 0real ==> {m('abs', p, X)} == x_{p}" for p in parts] + [f"x_re < 0real ==> {m('abs', p, X)} == -x_{p}" for p in parts]
        out.append(Lemma(f"lem_{ty}_abs", reals(X), sign_h, ens, ["C01", "C06", "C03"], "abs = +-X by the sign of the real part"))
    if have("signum"):
        one = ["1real"] + zeros
        ens = [f"x_re > 0real ==> {m('signum', p, X)} == {c}" for p, c in zip(parts, one)] + \
              [f"x_re < 0real ==> {m('signum', p, X)} == -{c}" for p, c in zip(parts, one)]
        out.append(Lemma(f"lem_{ty}_signum", reals(X), sign_h, ens, ["C01", "C06", "C03"], "signum = +-1 (constant) by the sign of the real part"))
    if have("abs_sub"):
        A = [f"a_{p}" for p in parts]
        B = [f"b_{p}" for p in parts]
        ens = [f"a_re > b_re ==> {m('abs_sub', p, A + B)} == a_{p} - b_{p}" for p in parts] + \
              [f"a_re <= b_re ==> {m('abs_sub', p, A + B)} == 0real" for p in parts]
        out.append(Lemma(f"lem_{ty}_abs_sub", reals(A + B), [], ens, ["C01", "C06"], "abs_sub = positive difference decided by the real parts"))
    # atan2(S, O): first-order parts satisfy  y1 * (o^2 + s^2) == o * s1 - s * o1  on the whole domain incl. both axes
    if have("atan2"):
        Sx_ = [f"s_{p}" for p in parts]
        Ox_ = [f"o_{p}" for p in parts]
        first = [p for p in parts if p in ("eps", "v1", "eps1", "eps2", "eps3")]
        common = ["s_re * recip_r(s_re) == 1real || s_re == 0real", "o_re * recip_r(o_re) == 1real || o_re == 0real",
                  "({ let q = s_re * recip_r(o_re); (1real + q * q) * recip_r(1real + q * q) == 1real })",
                  "({ let q = o_re * recip_r(s_re); (1real + q * q) * recip_r(1real + q * q) == 1real })",
                  "({ let q = s_re * (1real / o_re); (1real + q * q) * recip_r(1real + q * q) == 1real }) || o_re == 0real",
                  "({ let q = o_re * (1real / s_re); (1real + q * q) * recip_r(1real + q * q) == 1real }) || s_re == 0real"]
        for cname, hy in [("x_dominant", ["!(abs_r(o_re) < abs_r(s_re))", "o_re != 0real"]), ("y_dominant", ["abs_r(o_re) < abs_r(s_re)", "s_re != 0real"])]:
            ens = [f"{m('atan2', p, Sx_ + Ox_)} * (o_re * o_re + s_re * s_re) == o_re * s_{p} - s_re * o_{p}" for p in first]
            ens.append(f"{m('atan2', 're', Sx_ + Ox_)} == atan2_r(s_re, o_re)")
            out.append(Lemma(f"lem_{ty}_atan2_{cname}", reals(Sx_ + Ox_), hy + common, ens, ["C01", "C10", "C03"],
                             f"atan2: real part = atan2 of the real parts; first-order parts y' (o^2+s^2) = o s' - s o' ({cname} half-plane, axes included)"))
    # ---------------- C09 powers ----------------
    if have("powi"):
        P = lambda k: f"powi_r(x_re, exp - {k})"  # noqa: E731
        nr = "(exp as real)"
        g = [P(0), f"{nr} * {P(1)}", f"{nr} * ({nr} - 1real) * {P(2)}", f"{nr} * ({nr} - 1real) * ({nr} - 2real) * {P(3)}"]
        ens = [f"{m('powi', p, X + ['exp'])} == {lift(p, X, ['(' + t + ')' for t in g])}" for p in parts]
        base = ["powi_r(x_re, 0) == 1real", "powi_r(x_re, 1) == x_re", "powi_r(x_re, 2) == x_re * x_re"]
        gen = ["exp != 0", "exp != 1", "exp != 2",
               f"{P(0)} == {P(3)} * x_re * x_re * x_re", f"{P(1)} == {P(3)} * x_re * x_re", f"{P(2)} == {P(3)} * x_re"]
        what = "powi: every part = lift of the generalized power rule n!/(n-k)! x^(n-k)"
        for cname, hy in [("exp0", ["exp == 0"] + base), ("exp1", ["exp == 1"] + base), ("exp2", ["exp == 2"] + base), ("general", gen)]:
            out.append(Lemma(f"lem_{ty}_powi_{cname}", reals(X) + ", exp: int", hy, ens, ["C09", "C02", "C10", "C03"], what + f" (case {cname})"))
    if have("powf"):
        F = lambda k: f"powf_r(x_re, n - {k}real)"  # noqa: E731
        g = [F(0), f"n * {F(1)}", f"n * (n - 1real) * {F(2)}", f"n * (n - 1real) * (n - 2real) * {F(3)}"]
        ens = [f"{m('powf', p, X + ['n'])} == {lift(p, X, ['(' + t + ')' for t in g])}" for p in parts]
        base = ["eps_r() > 0real", "powf_r(x_re, 0real) == 1real", "powf_r(x_re, 1real) == x_re", "powf_r(x_re, 2real) == x_re * x_re"]
        gen = ["n != 0real", "n != 1real", "!(abs_r(n - 2real) < eps_r())"]
        what = "powf: every part = lift of n(n-1)..x^(n-k)"
        for cname, hy in [("n0", ["n == 0real"] + base), ("n1", ["n == 1real"] + base),
                          ("near2", ["abs_r(n - 2real) < eps_r()", "n == 2real"] + base), ("general", gen)]:
            out.append(Lemma(f"lem_{ty}_powf_{cname}", reals(X + ["n"]), hy, ens, ["C09", "C10", "C03"], what + f" (case {cname})"))
    if have("powd"):
        ln_lets, ln_g = tab_g("ln")
        Z = [mul_call(shape, p, lifted(X, ln_g), N) for p in parts]
        ens = ["({ let x = x_re; " + ln_lets + "let z = " + Z[0] + "; let e = exp_r(z); " +
               f"{m('powd', p, X + N)} == {lift(p, Z, ['e', 'e', 'e', 'e'])}" + " })" for p in parts]
        out.append(Lemma(f"lem_{ty}_powd", reals(X + N), [], ens, ["C09", "C03"], "powd = exp(N (x) ln X) as jets (logarithmic derivative w.r.t. a dual exponent)"))
    # ---------------- C15 spherical Bessel ----------------
    # closed-form branch: composition proofs (default mode) from the per-operation lemmas -- the C03 induction step
    # instantiated on the program text of each function.  J = (mirror-side parts, spec-side parts).
    zero_h = ["x_re == 0real", "eps_r() > 0real"]
    S = lifted(X, sin_g)
    Cc = lifted(X, cos_g)
    calls = []

    def mm(fn_, args):
        return [m(fn_, p, args) for p in parts]

    def call(lem, args):
        calls.append(f"nl::lem_{ty}_{lem}({', '.join(args)});")

    ctr = [0]

    def bind(exprs):
        """ghost let-bindings keep the proof context a DAG (inlining substitutes argument text)"""
        ctr[0] += 1
        names = [f"v{ctr[0]}_{p}" for p in parts]
        for n_, e in zip(names, exprs):
            calls.append(f"let {n_} = {e};")
        return names

    def binop(op, form, a, b):
        r = bind(mm(f"{op}_{form}", a + b))
        if form != "rr":
            call(f"{op}_{form}", a + b)
        call(op, a + b)
        return r

    lets = "let x = x_re; " + sin_lets
    wrap = lambda e: "({ " + lets + e + " })"  # noqa: E731
    Sx = [wrap(e) for e in S]
    Cx = [wrap(e) for e in Cc]
    c3 = ["3real"] + zeros
    if have("sph_j0") and have("sin") and have("div_or"):
        calls = []
        Sm = bind(mm("sin", X))
        call("sin", X)
        binop("div", "or", Sm, X)
        Y = mm("sph_j0", X)
        ens = [f"{mul_call(shape, p, Y, X)} == {Sx[i]}" for i, p in enumerate(parts)]
        hy = ["abs_r(x_re) >= eps_r()", "eps_r() > 0real", "x_re != 0real", "x_re * recip_r(x_re) == 1real"]
        out.append(Lemma(f"lem_{ty}_sph_j0_closed", reals(X), hy, ens, ["C15", "C03"],
                         "sph_j0 for |x| >= eps (both signs): Y (x) X == sin X", body=" ".join(calls), mode="root"))
    if have("sph_j0"):
        Y = mm("sph_j0", X)
        tabz = ["1real", "0real", "(-(1real / 3real))", "0real"]
        ens = [f"{Y[i]} == {lift(p, X, tabz)}" for i, p in enumerate(parts)]
        out.append(Lemma(f"lem_{ty}_sph_j0_zero", reals(X), zero_h, ens, ["C15", "C10"], "sph_j0 at x = 0: lift of the Maclaurin table (1, 0, -1/3, 0)"))
    if have("sph_j1") and have("sin_cos") and have("div_oo"):
        calls = []
        Sm = bind([m("sin_cos", "0_" + p, X) for p in parts])
        Cm = bind([m("sin_cos", "1_" + p, X) for p in parts])
        call("sin_cos", X)
        XC = binop("mul", "ro", X, Cm)
        D = binop("sub", "oo", Sm, XC)
        XXm = binop("mul", "rr", X, X)
        binop("div", "oo", D, XXm)
        Y = mm("sph_j1", X)
        XXs = [mul_call(shape, p, X, X) for p in parts]
        XCs = [mul_call(shape, p, X, Cx) for p in parts]
        ens = [f"{mul_call(shape, p, Y, XXs)} == {Sx[i]} - {XCs[i]}" for i, p in enumerate(parts)]
        hy = ["abs_r(x_re) >= eps_r()", "eps_r() > 0real", "x_re * x_re != 0real", "(x_re * x_re) * recip_r(x_re * x_re) == 1real"]
        out.append(Lemma(f"lem_{ty}_sph_j1_closed", reals(X), hy, ens, ["C15", "C03"],
                         "sph_j1 for |x| >= eps: Y (x) (X (x) X) == sin X - X (x) cos X", body=" ".join(calls), mode="root"))
    if have("sph_j1"):
        Y = mm("sph_j1", X)
        tabz = ["0real", "(1real / 3real)", "0real", "(-(1real / 5real))"]
        ens = [f"{Y[i]} == {lift(p, X, tabz)}" for i, p in enumerate(parts)]
        out.append(Lemma(f"lem_{ty}_sph_j1_zero", reals(X), zero_h, ens, ["C15", "C10"], "sph_j1 at x = 0: lift of the Maclaurin table (0, 1/3, 0, -1/5)"))
    if have("sph_j2") and have("sin_cos") and have("div_oo") and have("mul_of"):
        calls = []
        Sm = bind([m("sin_cos", "0_" + p, X) for p in parts])
        Cm = bind([m("sin_cos", "1_" + p, X) for p in parts])
        call("sin_cos", X)
        XXm = binop("mul", "rr", X, X)
        XC = binop("mul", "ro", X, Cm)
        D1 = binop("sub", "ro", Sm, XC)
        D2 = bind(mm("mul_of", D1 + ["3real"]))
        call("mul_of", D1 + ["3real"])
        call("mul", D1 + c3)
        XXS = binop("mul", "ro", XXm, Sm)
        Nn = binop("sub", "oo", D2, XXS)
        XXX = binop("mul", "or", XXm, X)
        binop("div", "oo", Nn, XXX)
        Y = mm("sph_j2", X)
        XXs = [mul_call(shape, p, X, X) for p in parts]
        XXXs = [mul_call(shape, p, XXs, X) for p in parts]
        XCs = [mul_call(shape, p, X, Cx) for p in parts]
        D1s = [f"({Sx[i]} - {XCs[i]})" for i in range(len(parts))]
        D2s = [mul_call(shape, p, D1s, c3) for p in parts]
        XXSs = [mul_call(shape, p, XXs, Sx) for p in parts]
        ens = [f"{mul_call(shape, p, Y, XXXs)} == {D2s[i]} - {XXSs[i]}" for i, p in enumerate(parts)]
        hy = ["abs_r(x_re) >= eps_r()", "eps_r() > 0real", "(x_re * x_re) * x_re != 0real",
              "((x_re * x_re) * x_re) * recip_r((x_re * x_re) * x_re) == 1real"]
        out.append(Lemma(f"lem_{ty}_sph_j2_closed", reals(X), hy, ens, ["C15", "C03"],
                         "sph_j2 for |x| >= eps: Y (x) X^3 == 3 (sin X - X cos X) - X^2 sin X", body=" ".join(calls), mode="root"))
    if have("sph_j2"):
        Y = mm("sph_j2", X)
        tabz = ["0real", "0real", "(2real / 15real)", "0real"]
        ens = [f"{Y[i]} == {lift(p, X, tabz)}" for i, p in enumerate(parts)]
        out.append(Lemma(f"lem_{ty}_sph_j2_zero", reals(X), zero_h, ens, ["C15", "C10"], "sph_j2 at x = 0: lift of the Maclaurin table (0, 0, 2/15, 0)"))
    return out
