"""Generation of the property lemmas (DESIGN.md §2.1 (3b), §3.2, §4) over the mirror functions.

The *statements* come from the properties (Leibniz product, quotient q*b = a, Faa di Bruno lift of
a derivative table, forms agree, ...).  They are instantiated per type / per function from the
extraction metadata, so a function the extractor did not find simply has no lemma and is reported as a
lost anchor by the checker (never silently skipped).

Vector types are handled entry-wise: a DualVec entry (re, eps[i]) is a first-order dual number, a
Dual2Vec entry (re, v1[i], v1[j], v2[i,j]) and a HyperDualVec entry (re, eps1[i], eps2[j], eps1eps2[i,j])
are hyper-dual numbers; absent parts read as zero (the Derivative unit proves that this view is all the
operations depend on)."""
from speclib import SHAPES, ORDER, TYPE_SHAPE, mul_call, lift_call

# ----------------------------------------------------------------------------------------------
# derivative tables  T_g(x) = (g0, g1, g2, g3)  in terms of named atoms (DESIGN.md §3.2).
# ----------------------------------------------------------------------------------------------
TABLES = {
    "recip": dict(atoms=[("r", "recip_r(x)")], g=["r", "-(r * r)", "2real * r * r * r", "-(6real * r * r * r * r)"]),
    "sqrt": dict(atoms=[("s", "sqrt_r(x)"), ("r", "recip_r(x)")],
                 g=["s", "s * r / 2real", "-(s * r * r) / 4real", "3real * s * r * r * r / 8real"]),
    "cbrt": dict(atoms=[("c", "cbrt_r(x)"), ("r", "recip_r(x)")],
                 g=["c", "c * r / 3real", "-(2real * c * r * r) / 9real", "10real * c * r * r * r / 27real"]),
    "exp": dict(atoms=[("e", "exp_r(x)")], g=["e", "e", "e", "e"]),
    "exp2": dict(atoms=[("e", "exp2_r(x)"), ("l", "ln_r(2real)")], g=["e", "e * l", "e * l * l", "e * l * l * l"]),
    "exp_m1": dict(atoms=[("e", "exp_r(x)")], g=["expm1_r(x)", "e", "e", "e"]),
    "ln": dict(atoms=[("r", "recip_r(x)")], g=["ln_r(x)", "r", "-(r * r)", "2real * r * r * r"]),
    "log": dict(atoms=[("r", "recip_r(x)"), ("k", "recip_r(x) / ln_r(base)")], extra_params=["base"],
                g=["log_r(x, base)", "k", "-(k * r)", "2real * k * r * r"]),
    "log2": dict(atoms=[("r", "recip_r(x)"), ("k", "recip_r(x) / ln_r(2real)")], g=["log2_r(x)", "k", "-(k * r)", "2real * k * r * r"]),
    "log10": dict(atoms=[("r", "recip_r(x)"), ("k", "recip_r(x) / ln_r(10real)")], g=["log10_r(x)", "k", "-(k * r)", "2real * k * r * r"]),
    "ln_1p": dict(atoms=[("r", "recip_r(x + 1real)")], g=["ln1p_r(x)", "r", "-(r * r)", "2real * r * r * r"]),
    "sin": dict(atoms=[("s", "sin_r(x)"), ("c", "cos_r(x)")], g=["s", "c", "-s", "-c"]),
    "cos": dict(atoms=[("s", "sin_r(x)"), ("c", "cos_r(x)")], g=["c", "-s", "-c", "s"]),
    "sinh": dict(atoms=[("s", "sinh_r(x)"), ("c", "cosh_r(x)")], g=["s", "c", "s", "c"]),
    "cosh": dict(atoms=[("s", "sinh_r(x)"), ("c", "cosh_r(x)")], g=["c", "s", "c", "s"]),
    "asin": dict(atoms=[("q", "recip_r(1real - x * x)"), ("w", "sqrt_r(recip_r(1real - x * x))")],
                 g=["asin_r(x)", "w", "x * w * q", "(2real * x * x + 1real) * w * q * q"]),
    "acos": dict(atoms=[("q", "recip_r(1real - x * x)"), ("w", "sqrt_r(recip_r(1real - x * x))")],
                 g=["acos_r(x)", "-w", "-(x * w * q)", "-((2real * x * x + 1real) * w * q * q)"]),
    "atan": dict(atoms=[("q", "recip_r(1real + x * x)")],
                 g=["atan_r(x)", "q", "-(2real * x * q * q)", "(6real * x * x - 2real) * q * q * q"]),
    "asinh": dict(atoms=[("q", "recip_r(1real + x * x)"), ("w", "sqrt_r(recip_r(1real + x * x))")],
                  g=["asinh_r(x)", "w", "-(x * w * q)", "(2real * x * x - 1real) * w * q * q"]),
    "acosh": dict(atoms=[("q", "recip_r(x * x - 1real)"), ("w", "sqrt_r(recip_r(x * x - 1real))")],
                  g=["acosh_r(x)", "w", "-(x * w * q)", "(2real * x * x + 1real) * w * q * q"]),
    "atanh": dict(atoms=[("q", "recip_r(1real - x * x)")],
                  g=["atanh_r(x)", "q", "2real * x * q * q", "(6real * x * x + 2real) * q * q * q"]),
}

def _nested_hd():
    lv = ["re_re", "re_eps", "eps_re", "eps_eps"]
    return dict(shape="hd", leaves=lv, outs=lv, smap=dict(zip(lv, ["re", "eps1", "eps2", "eps1eps2"])))


def _nested_hhd():
    hd = ["re_re", "re_eps", "eps_re", "eps_eps"]
    lv = ["re_" + x for x in hd] + ["eps_" + x for x in hd]
    sp = ["re", "eps1", "eps2", "eps1eps2", "eps3", "eps1eps3", "eps2eps3", "eps1eps2eps3"]
    return dict(shape="hhd", leaves=lv, outs=lv, smap=dict(zip(lv, sp)))


def _u_hyps(u):
    return [f"({u}) * recip_r({u}) == 1real", f"recip_r({u}) * recip_r(recip_r({u})) == 1real"]


# nested instantiations evaluate the inner type's functions on jets, which introduces atoms such as recip_r(recip_r(u));
# the facts relating them are instances of ax_recip
NESTED_HYPS = {
    "asin": _u_hyps("1real - x_re * x_re"), "acos": _u_hyps("1real - x_re * x_re"), "atanh": _u_hyps("1real - x_re * x_re"),
    "asinh": _u_hyps("1real + x_re * x_re"), "atan": _u_hyps("1real + x_re * x_re"), "acosh": _u_hyps("x_re * x_re - 1real"),
    "log": ["ln_r(base) != 0real"], "log2": ["ln_r(2real) != 0real"], "log10": ["ln_r(10real) != 0real"],
}
NESTED_SKIP = ("powi_", "powf_", "sph_j0_zero", "sph_j1_zero", "sph_j2_zero")


VEC_DESC = {
    # monomorphised nestings: Dual<Dual<Sc>> is D(D(R)) = the hyper-dual algebra, Dual<Dual<Dual<Sc>>> = D(D(D(R)))
    "Dual__Dual": _nested_hd(),
    "Dual__Dual__Dual": _nested_hhd(),
    "DualVec": dict(shape="d", leaves=["re", "eps_i"], outs=["re", "eps_i"], smap={"re": "re", "eps_i": "eps"}),
    "Dual2Vec": dict(shape="hd", leaves=["re", "v1_i", "v1_j", "v2_ij"], outs=["re", "v1_i", "v2_ij"],
                     smap={"re": "re", "v1_i": "eps1", "v1_j": "eps2", "v2_ij": "eps1eps2"}, swap={"v1_j": ("v1_i", {"v1_i": "v1_j", "v1_j": "v1_i"})}),
    "HyperDualVec": dict(shape="hd", leaves=["re", "eps1_i", "eps2_j", "eps1eps2_ij"], outs=["re", "eps1_i", "eps2_j", "eps1eps2_ij"],
                         smap={"re": "re", "eps1_i": "eps1", "eps2_j": "eps2", "eps1eps2_ij": "eps1eps2"}),
}


def describe(meta):
    ty = meta["unit"]
    if ty in TYPE_SHAPE:
        shape = TYPE_SHAPE[ty]
        parts = SHAPES[shape]
        assert parts == [p[0] for p in meta["parts"]], (parts, meta["parts"])
        return dict(shape=shape, leaves=parts, outs=parts, smap={p: p for p in parts})
    d = VEC_DESC[ty]
    assert d["leaves"] == meta["leaves"] and d["outs"] == meta["outs"], (d, meta["leaves"], meta["outs"])
    return d


def fn_by_mname(meta):
    return {f["mname"]: f for f in meta["functions"]}


def reals(names):
    return ", ".join(f"{n}: real" for n in names)


class Lemma:
    def __init__(self, name, params, requires, ensures, prop, what, body="", mode="nl"):
        self.name, self.params, self.requires, self.ensures, self.prop, self.what, self.body = name, params, requires, ensures, prop, what, body
        self.mode = mode  # "nl": flat non-linear lemma (mod nl);  "root": default-mode composition of other lemmas
        # a composition lemma is a proof script written against the operation sequence of the body: after a
        # behaviour-preserving restructuring of that body the script no longer applies although the property holds
        self.structural = bool(body) and mode == "root"

    def text(self, canary=False):
        req = (" requires " + ", ".join(self.requires)) if self.requires else ""
        if canary:
            return f"pub proof fn canary_{self.name}({self.params}) by(nonlinear_arith){req} ensures false {{}}\n"
        # one ensures clause per line: a failing clause is attributed to its part by line number
        ens = " ensures\n    " + ",\n    ".join(self.ensures)
        if self.mode == "root":
            return f"pub proof fn {self.name}({self.params}){req}{ens}\n{{ {self.body} }}\n"
        return f"pub proof fn {self.name}({self.params}) by(nonlinear_arith){req}{ens}\n{{}}\n"


def tab_g(name):
    t = TABLES[name]
    lets = "".join(f"let {n} = {e}; " for n, e in t["atoms"])
    return lets, ["(" + g + ")" for g in t["g"]]


class Gen:
    """helpers bound to one type"""

    def __init__(self, meta):
        self.meta = meta
        self.ty = meta["unit"]
        d = describe(meta)
        self.shape, self.leaves, self.outs, self.smap = d["shape"], d["leaves"], d["outs"], d["smap"]
        self.swap = d.get("swap", {})
        self.fns = fn_by_mname(meta)
        self.order = ORDER[self.shape]
        self.sparts = SHAPES[self.shape]
        self.zeros = ["0real"] * (len(self.leaves) - 1)

    def have(self, m):
        return f"m_{self.ty}_{m}" in self.fns

    def var(self, prefix):
        return [f"{prefix}_{l}" for l in self.leaves]

    def m(self, fn_, out, ops, extra=()):
        """mirror call for out part `out`; ops = list of operand leaf-lists"""
        args = [a for op in ops for a in op] + list(extra)
        return f"m_{self.ty}_{fn_}_{out}({', '.join(args)})"

    def mjet(self, fn_, ops, extra=(), prefix=""):
        """all leaves of the jet returned by the mirror of fn_ (j-variants by index swap)"""
        res = []
        for l in self.leaves:
            if l in self.outs:
                res.append(self.m(fn_, prefix + l, ops, extra))
            else:
                src, perm = self.swap[l]
                sw = []
                for op in ops:
                    d = dict(zip(self.leaves, op))
                    sw.append([d[perm.get(x, x)] for x in self.leaves])
                res.append(self.m(fn_, prefix + src, sw, extra))
        return res

    def to_spec(self, jet):
        """reorder a jet given in leaf order into the part order of the specification shape"""
        d = dict(zip(self.leaves, jet))
        inv = {v: k for k, v in self.smap.items()}
        return [d[inv[sp]] for sp in self.sparts]

    def smul(self, out, a, b):
        return mul_call(self.shape, self.smap[out], self.to_spec(a), self.to_spec(b))

    def smul_jet(self, a, b):
        return [mul_call(self.shape, self.smap[l], self.to_spec(a), self.to_spec(b)) for l in self.leaves]

    def slift(self, out, x, g):
        return lift_call(self.shape, self.smap[out], self.to_spec(x), g)

    def slift_jet(self, x, g):
        return [lift_call(self.shape, self.smap[l], self.to_spec(x), g) for l in self.leaves]

    def const(self, c):
        return [c] + self.zeros


def gen_type_lemmas(meta):
    G = Gen(meta)
    ty, outs = G.ty, G.outs
    out = []
    A, B, X, Cv = G.var("a"), G.var("b"), G.var("x"), G.var("c")
    have, m = G.have, G.m

    def L(name, params, req, ens, prop, what, **kw):
        out.append(Lemma(f"lem_{ty}_{name}", params, req, ens, prop, what, **kw))

    # ---------------- C02: product / quotient / sum / difference / negation ----------------
    if have("mul_rr"):
        L("mul", reals(A + B), [], [f"{m('mul_rr', p, [A, B])} == {G.smul(p, A, B)}" for p in outs],
          ["C02", "C03", "C07", "C04"], f"&{ty} * &{ty} is the truncated Cauchy (Leibniz) product, entry-wise for vector types")
    if have("div_rr"):
        q = G.mjet("div_rr", [A, B])
        L("div", reals(A + B), ["b_re != 0real", "b_re * recip_r(b_re) == 1real"], [f"{G.smul(p, q, B)} == a_{p}" for p in outs],
          ["C02", "C03", "C07", "C04"], f"q = &{ty} / &{ty} satisfies q (x) b == a (quotient rule incl. all mixed parts)")
    for op, sym in [("add", "+"), ("sub", "-")]:
        if have(f"{op}_rr"):
            L(op, reals(A + B), [], [f"{m(op + '_rr', p, [A, B])} == a_{p} {sym} b_{p}" for p in outs], ["C02", "C03", "C07"], f"&{ty} {sym} &{ty} is part-wise")
    if have("neg_r"):
        L("neg", reals(A), [], [f"{m('neg_r', p, [A])} == -a_{p}" for p in outs], ["C02", "C03", "C07"], f"-&{ty} is part-wise")
    # ---------------- C08: all syntactic forms agree with the canonical form ----------------
    for op in ["add", "sub", "mul", "div"]:
        for form in ["oo", "or", "ro"]:
            if have(f"{op}_{form}") and have(f"{op}_rr"):
                L(f"{op}_{form}", reals(A + B), [], [f"{m(op + '_' + form, p, [A, B])} == {m(op + '_rr', p, [A, B])}" for p in outs],
                  ["C08", "C07", "C03"], f"form {form} of {op} equals the borrowed form")
        if have(f"{op}_assign_oo") and have(f"{op}_rr"):
            L(f"{op}_assign", reals(A + B), [], [f"{m(op + '_assign_oo', p, [A, B])} == {m(op + '_rr', p, [A, B])}" for p in outs],
              ["C08", "C07", "C03"], f"{op}-assign equals the binary operator")
    if have("neg_o") and have("neg_r"):
        L("neg_o", reals(A), [], [f"{m('neg_o', p, [A])} == {m('neg_r', p, [A])}" for p in outs], ["C08", "C07", "C03"], "owned negation")
    C = G.const("f")
    for op in ["add", "sub", "mul"]:
        for form, nm in [("of", op), ("assign_of", op + "-assign")]:
            mn = f"{op}_{form}"
            if have(mn) and have(f"{op}_rr"):
                L(mn, reals(A + ["f"]), [], [f"{m(mn, p, [A], ['f'])} == {m(op + '_rr', p, [A, C])}" for p in outs],
                  ["C08", "C07", "C03"], f"{nm} with a scalar equals the dual operation with the scalar lifted to a constant")
    for mn in ["div_of", "div_assign_of"]:
        if have(mn) and have("div_rr"):
            L(mn, reals(A + ["f"]), ["f != 0real", "f * recip_r(f) == 1real"], [f"{m(mn, p, [A], ['f'])} == {m('div_rr', p, [A, C])}" for p in outs],
              ["C08", "C07", "C03"], "division by a scalar equals the dual quotient with the scalar lifted to a constant")
    if have("inv") and have("recip"):
        L("inv", reals(A), [], [f"{m('inv', p, [A])} == {m('recip', p, [A])}" for p in outs], ["C08"], "inv == recip")
    if have("from"):
        L("from", "f: real", [], [f"{m('from', p, [], ['f'])} == {c}" for p, c in zip(G.leaves, C) if p in outs], ["C08", "C07"], "From<F> lifts to a constant (absent = zero parts)")
    # FloatConst: each named constant is the scalar constant of the same name lifted to a constant dual number
    import prelude as _pre
    for cn in _pre.CONSTS:
        if have(cn):
            cj = G.const(f"c_{cn}()")
            L(cn, "", [], [f"{m(cn, p, [])} == {c}" for p, c in zip(G.leaves, cj) if p in outs], ["C08", "C11", "C07"], f"FloatConst::{cn}() is the scalar constant {cn} lifted to a constant (zero / absent derivative parts)")
    if have("zero"):
        L("zero", "", [], [f"{m('zero', p, [])} == 0real" for p in outs], ["C08", "C07"], "zero")
    if have("one"):
        L("one", "", [], [f"{m('one', p, [])} == {c}" for p, c in zip(G.leaves, G.const('1real')) if p in outs], ["C08", "C07"], "one")
    if have("mul_add") and have("mul_rr"):
        L("mul_add", reals(A + B + Cv), [], [f"{m('mul_add', p, [A, B, Cv])} == {m('mul_rr', p, [A, B])} + c_{p}" for p in outs], ["C08", "C03"], "default mul_add = self*a+b")
    # ---------------- C01: chain rule and elementary functions ----------------
    Gs = ["g0", "g1", "g2", "g3"][: G.order + 1]
    if have("chain_rule") and "__" not in ty:
        L("chain_rule", reals(X + Gs), [], [f"{m('chain_rule', p, [X], Gs)} == {G.slift(p, X, Gs)}" for p in outs],
          ["C01", "C03", "C07", "C04"], "chain rule = Faa di Bruno lift (nested first-order chain rule)")
    nested = "__" in ty
    for g, tab in TABLES.items():
        if not have(g):
            continue
        extra = tab.get("extra_params", [])
        hyp = list(NESTED_HYPS.get(g, [])) if nested else []
        lets = "let x = x_re; " + "".join(f"let {n} = {e}; " for n, e in tab["atoms"])
        ens = ["({ " + lets + f"{m(g, p, [X], extra)} == {G.slift(p, X, ['(' + t + ')' for t in tab['g']])}" + " })" for p in outs]
        # the real-part clause of this lemma is also C06's "the real part equals the same operation on plain floats"
        L(g, reals(X + extra), hyp, ens, ["C01", "C03", "C07", "C04", "C06"] if nested else ["C01", "C03", "C07", "C06"], f"{g}: result jet = lift of the derivative table of {g} at x.re (real part = the plain function of the real part)")
    ls = out + gen_type_lemmas2(meta)
    if nested:
        # exponent / small-argument case splits of the inner level are not replicated for the nested units
        skip = NESTED_SKIP + (("log",) if ty.count("__") >= 2 else ())
        ls = [l for l in ls if not any(l.name.startswith(f"lem_{ty}_{k}") for k in skip)]
        for l in ls:
            if "C04" not in l.prop:
                l.prop = l.prop + ["C04"]
    return fix_real_leaf(G, ls)


def fix_real_leaf(G, ls):
    """templates name the innermost real part `<v>_re`; for nested types that leaf is `<v>_re_re...`"""
    import re as _re
    rl = G.leaves[0]
    if rl == "re":
        return ls
    pat = _re.compile(r"\b([a-z])_re\b")
    fx = lambda t: pat.sub(lambda m_: m_.group(1) + "_" + rl, t)  # noqa: E731
    for l in ls:
        l.params = fx(l.params)
        l.requires = [fx(x) for x in l.requires]
        l.ensures = [fx(x) for x in l.ensures]
        l.body = fx(l.body)
    return ls


def gen_type_lemmas2(meta):
    G = Gen(meta)
    ty, outs, leaves = G.ty, G.outs, G.leaves
    out = []
    X, N = G.var("x"), G.var("n")
    have, m = G.have, G.m

    def L(name, params, req, ens, prop, what, **kw):
        out.append(Lemma(f"lem_{ty}_{name}", params, req, ens, prop, what, **kw))

    sin_lets, sin_g = tab_g("sin")
    cos_lets, cos_g = tab_g("cos")
    wrapx = lambda e: "({ let x = x_re; " + sin_lets + e + " })"  # noqa: E731
    if have("sin_cos"):
        ens = []
        for p in outs:
            ens.append(wrapx(f"{m('sin_cos', '0_' + p, [X])} == {G.slift(p, X, sin_g)}"))
            ens.append(wrapx(f"{m('sin_cos', '1_' + p, [X])} == {G.slift(p, X, cos_g)}"))
        L("sin_cos", reals(X), [], ens, ["C01", "C03"], "sin_cos = (sin, cos) jets")
    sign_h = ["x_re != 0real", "x_re > 0real ==> is_positive_r(x_re)", "x_re < 0real ==> !is_positive_r(x_re)"]
    if have("abs"):
        ens = [f"x_re > 0real ==> {m('abs', p, [X])} == x_{p}" for p in outs] + [f"x_re < 0real ==> {m('abs', p, [X])} == -x_{p}" for p in outs]
        L("abs", reals(X), sign_h, ens, ["C01", "C06", "C03"], "abs = +-X by the sign of the real part")
    if have("signum"):
        one = dict(zip(leaves, G.const("1real")))
        ens = [f"x_re > 0real ==> {m('signum', p, [X])} == {one[p]}" for p in outs] + [f"x_re < 0real ==> {m('signum', p, [X])} == -{one[p]}" for p in outs]
        L("signum", reals(X), sign_h, ens, ["C01", "C06", "C03"], "signum = +-1 (constant) by the sign of the real part")
    if have("abs_sub"):
        A, B = G.var("a"), G.var("b")
        ens = [f"a_re > b_re ==> {m('abs_sub', p, [A, B])} == a_{p} - b_{p}" for p in outs] + [f"a_re <= b_re ==> {m('abs_sub', p, [A, B])} == 0real" for p in outs]
        L("abs_sub", reals(A + B), [], ens, ["C01", "C06"], "abs_sub = positive difference decided by the real parts")
    # atan2(S, O): first-order parts satisfy  y1 * (o^2 + s^2) == o * s1 - s * o1  on the whole domain incl. both axes
    if have("atan2"):
        Sx_, Ox_ = G.var("s"), G.var("o")
        first = [p for p in outs if G.smap[p] in ("eps", "v1", "eps1", "eps2", "eps3")]
        common = ["s_re * recip_r(s_re) == 1real || s_re == 0real", "o_re * recip_r(o_re) == 1real || o_re == 0real",
                  "({ let q = s_re * recip_r(o_re); (1real + q * q) * recip_r(1real + q * q) == 1real })",
                  "({ let q = o_re * recip_r(s_re); (1real + q * q) * recip_r(1real + q * q) == 1real })",
                  "({ let q = s_re * (1real / o_re); (1real + q * q) * recip_r(1real + q * q) == 1real }) || o_re == 0real",
                  "({ let q = o_re * (1real / s_re); (1real + q * q) * recip_r(1real + q * q) == 1real }) || s_re == 0real"]
        for cname, hy in [("x_dominant", ["!(abs_r(o_re) < abs_r(s_re))", "o_re != 0real"]), ("y_dominant", ["abs_r(o_re) < abs_r(s_re)", "s_re != 0real"])]:
            ens = [f"{m('atan2', p, [Sx_, Ox_])} * (o_re * o_re + s_re * s_re) == o_re * s_{p} - s_re * o_{p}" for p in first]
            ens.append(f"{m('atan2', outs[0], [Sx_, Ox_])} == atan2_r(s_re, o_re)")
            L(f"atan2_{cname}", reals(Sx_ + Ox_), hy + common, ens, ["C01", "C10", "C03"],
              f"atan2: real part = atan2 of the real parts; first-order parts y' (o^2+s^2) = o s' - s o' ({cname} half-plane, axes included)")
    # ---------------- C09 powers ----------------
    if have("powi"):
        P = lambda k: f"powi_r(x_re, exp - {k})"  # noqa: E731
        nr = "(exp as real)"
        g = [P(0), f"{nr} * {P(1)}", f"{nr} * ({nr} - 1real) * {P(2)}", f"{nr} * ({nr} - 1real) * ({nr} - 2real) * {P(3)}"]
        ens = [f"{m('powi', p, [X], ['exp'])} == {G.slift(p, X, ['(' + t + ')' for t in g])}" for p in outs]
        base = ["powi_r(x_re, 0) == 1real", "powi_r(x_re, 1) == x_re", "powi_r(x_re, 2) == x_re * x_re"]
        gen = ["exp != 0", "exp != 1", "exp != 2", f"{P(0)} == {P(3)} * x_re * x_re * x_re", f"{P(1)} == {P(3)} * x_re * x_re", f"{P(2)} == {P(3)} * x_re"]
        what = "powi: every part = lift of the generalized power rule n!/(n-k)! x^(n-k)"
        for cname, hy in [("exp0", ["exp == 0"] + base), ("exp1", ["exp == 1"] + base), ("exp2", ["exp == 2"] + base), ("general", gen)]:
            L(f"powi_{cname}", reals(X) + ", exp: int", hy, ens, ["C09", "C02", "C10", "C03"], what + f" (case {cname})")
    if have("powf"):
        F = lambda k: f"powf_r(x_re, n - {k}real)"  # noqa: E731
        g = [F(0), f"n * {F(1)}", f"n * (n - 1real) * {F(2)}", f"n * (n - 1real) * (n - 2real) * {F(3)}"]
        ens = [f"{m('powf', p, [X], ['n'])} == {G.slift(p, X, ['(' + t + ')' for t in g])}" for p in outs]
        base = ["eps_r() > 0real", "powf_r(x_re, 0real) == 1real", "powf_r(x_re, 1real) == x_re", "powf_r(x_re, 2real) == x_re * x_re"]
        gen = ["n != 0real", "n != 1real", "!(abs_r(n - 2real) < eps_r())"]
        what = "powf: every part = lift of n(n-1)..x^(n-k)"
        for cname, hy in [("n0", ["n == 0real"] + base), ("n1", ["n == 1real"] + base), ("near2", ["abs_r(n - 2real) < eps_r()", "n == 2real"] + base), ("general", gen)]:
            L(f"powf_{cname}", reals(X + ["n"]), hy, ens, ["C09", "C10", "C03"], what + f" (case {cname})")
    if have("powd"):
        ln_lets, ln_g = tab_g("ln")
        Z = G.smul_jet(G.slift_jet(X, ln_g), N)
        ens = ["({ let x = x_re; " + ln_lets + "let z = " + Z[0] + "; let e = exp_r(z); " + f"{m('powd', p, [X, N])} == {G.slift(p, Z, ['e', 'e', 'e', 'e'])}" + " })" for p in outs]
        L("powd", reals(X + N), [], ens, ["C09", "C03"], "powd = exp(N (x) ln X) as jets (logarithmic derivative w.r.t. a dual exponent)")
    # ---------------- C15 spherical Bessel ----------------
    zero_h = ["x_re == 0real", "eps_r() > 0real"]
    S = G.slift_jet(X, sin_g)
    Cc = G.slift_jet(X, cos_g)
    Sx = [wrapx(e) for e in S]
    Cx = [wrapx(e) for e in Cc]
    c3 = G.const("3real")
    state = dict(calls=[], ctr=0)

    def swapped(op):
        perm = {}
        for _, (_, pm) in G.swap.items():
            perm.update(pm)
        d = dict(zip(leaves, op))
        return [d[perm.get(x, x)] for x in leaves]

    def call(lem, ops, extra=()):
        flat = [a for op in ops for a in op] + list(extra)
        state["calls"].append(f"nl::lem_{ty}_{lem}({', '.join(flat)});")
        if G.swap:
            # the j-variant of a symmetric first-order part is the same lemma with i and j exchanged
            flat = [a for op in ops for a in swapped(op)] + list(extra)
            state["calls"].append(f"nl::lem_{ty}_{lem}({', '.join(flat)});")

    def bind(exprs):
        """ghost let-bindings keep the proof context a DAG (inlining substitutes argument text)"""
        state["ctr"] += 1
        names = [f"v{state['ctr']}_{l}" for l in leaves]
        for n_, e in zip(names, exprs):
            state["calls"].append(f"let {n_} = {e};")
        return names

    def binop(op, form, a, b):
        r = bind(G.mjet(f"{op}_{form}", [a, b]))
        if form != "rr":
            call(f"{op}_{form}", [a, b])
        call(op, [a, b])
        return r

    idx = {l: i for i, l in enumerate(leaves)}
    # tan = sin/cos, tanh = sinh/cosh: Y (x) cos(X) == sin(X) by chaining the sin_cos / sinh / cosh lemmas and the quotient lemma
    if have("tan") and have("sin_cos") and have("div_oo"):
        state["calls"] = []
        Sm = bind(G.mjet("sin_cos", [X], prefix="0_"))
        Cm = bind(G.mjet("sin_cos", [X], prefix="1_"))
        call("sin_cos", [X])
        binop("div", "oo", Sm, Cm)
        Y = G.mjet("tan", [X])
        ens = [f"{G.smul(p, Y, Cx)} == {Sx[idx[p]]}" for p in outs]
        hy = ["cos_r(x_re) != 0real", "cos_r(x_re) * recip_r(cos_r(x_re)) == 1real"]
        L("tan", reals(X), hy, ens, ["C01", "C03"], "tan: Y (x) cos(X) == sin(X) as jets (Y = sin X / cos X)", body=" ".join(state["calls"]), mode="root")
    if have("tanh") and have("sinh") and have("cosh") and have("div_oo"):
        state["calls"] = []
        sl, sg = tab_g("sinh")
        cl, cg = tab_g("cosh")
        wraph = lambda e: "({ let x = x_re; " + sl + e + " })"  # noqa: E731
        Sh = [wraph(e) for e in G.slift_jet(X, sg)]
        Ch = [wraph(e) for e in G.slift_jet(X, cg)]
        Sm = bind(G.mjet("sinh", [X]))
        call("sinh", [X])
        Cm = bind(G.mjet("cosh", [X]))
        call("cosh", [X])
        binop("div", "oo", Sm, Cm)
        Y = G.mjet("tanh", [X])
        ens = [f"{G.smul(p, Y, Ch)} == {Sh[idx[p]]}" for p in outs]
        hy = ["cosh_r(x_re) != 0real", "cosh_r(x_re) * recip_r(cosh_r(x_re)) == 1real"]
        L("tanh", reals(X), hy, ens, ["C01", "C03"], "tanh: Y (x) cosh(X) == sinh(X) as jets", body=" ".join(state["calls"]), mode="root")
    if have("sph_j0") and have("sin") and have("div_or"):
        state["calls"] = []
        Sm = bind(G.mjet("sin", [X]))
        call("sin", [X])
        binop("div", "or", Sm, X)
        Y = G.mjet("sph_j0", [X])
        ens = [f"{G.smul(p, Y, X)} == {Sx[idx[p]]}" for p in outs]
        hy = ["abs_r(x_re) >= eps_r()", "eps_r() > 0real", "x_re != 0real", "x_re * recip_r(x_re) == 1real"]
        L("sph_j0_closed", reals(X), hy, ens, ["C15", "C03"], "sph_j0 for |x| >= eps (both signs): Y (x) X == sin X", body=" ".join(state["calls"]), mode="root")
    if have("sph_j0"):
        tabz = ["1real", "0real", "(-(1real / 3real))", "0real"]
        L("sph_j0_zero", reals(X), zero_h, [f"{m('sph_j0', p, [X])} == {G.slift(p, X, tabz)}" for p in outs], ["C15", "C10"], "sph_j0 at x = 0: lift of the Maclaurin table (1, 0, -1/3, 0)")
    if have("sph_j1") and have("sin_cos") and have("div_oo"):
        state["calls"] = []
        Sm = bind(G.mjet("sin_cos", [X], prefix="0_"))
        Cm = bind(G.mjet("sin_cos", [X], prefix="1_"))
        call("sin_cos", [X])
        XC = binop("mul", "ro", X, Cm)
        D = binop("sub", "oo", Sm, XC)
        XXm = binop("mul", "rr", X, X)
        binop("div", "oo", D, XXm)
        Y = G.mjet("sph_j1", [X])
        XXs = G.smul_jet(X, X)
        XCs = G.smul_jet(X, Cx)
        ens = [f"{G.smul(p, Y, XXs)} == {Sx[idx[p]]} - {XCs[idx[p]]}" for p in outs]
        den = G.mjet("mul_rr", [X, X])[0]  # real part of the denominator exactly as the body forms it
        hy = ["abs_r(x_re) >= eps_r()", "eps_r() > 0real", f"{den} != 0real", f"({den}) * recip_r({den}) == 1real"]
        L("sph_j1_closed", reals(X), hy, ens, ["C15", "C03"], "sph_j1 for |x| >= eps: Y (x) (X (x) X) == sin X - X (x) cos X", body=" ".join(state["calls"]), mode="root")
    if have("sph_j1"):
        tabz = ["0real", "(1real / 3real)", "0real", "(-(1real / 5real))"]
        L("sph_j1_zero", reals(X), zero_h, [f"{m('sph_j1', p, [X])} == {G.slift(p, X, tabz)}" for p in outs], ["C15", "C10"], "sph_j1 at x = 0: lift of the Maclaurin table (0, 1/3, 0, -1/5)")
    if have("sph_j2") and have("sin_cos") and have("div_oo") and have("mul_of"):
        state["calls"] = []
        Sm = bind(G.mjet("sin_cos", [X], prefix="0_"))
        Cm = bind(G.mjet("sin_cos", [X], prefix="1_"))
        call("sin_cos", [X])
        XXm = binop("mul", "rr", X, X)
        XC = binop("mul", "ro", X, Cm)
        D1 = binop("sub", "ro", Sm, XC)
        D2 = bind(G.mjet("mul_of", [D1], ["3real"]))
        call("mul_of", [D1], ["3real"])
        call("mul", [D1, c3])
        XXS = binop("mul", "ro", XXm, Sm)
        Nn = binop("sub", "oo", D2, XXS)
        XXX = binop("mul", "or", XXm, X)
        binop("div", "oo", Nn, XXX)
        Y = G.mjet("sph_j2", [X])
        XXs = G.smul_jet(X, X)
        XXXs = G.smul_jet(XXs, X)
        XCs = G.smul_jet(X, Cx)
        D1s = [f"({Sx[i]} - {XCs[i]})" for i in range(len(leaves))]
        D2s = G.smul_jet(D1s, c3)
        XXSs = G.smul_jet(XXs, Sx)
        ens = [f"{G.smul(p, Y, XXXs)} == {D2s[idx[p]]} - {XXSs[idx[p]]}" for p in outs]
        den = G.mjet("mul_or", [G.mjet("mul_rr", [X, X]), X])[0]  # real part of the denominator exactly as the body forms it
        hy = ["abs_r(x_re) >= eps_r()", "eps_r() > 0real", f"{den} != 0real", f"({den}) * recip_r({den}) == 1real"]
        L("sph_j2_closed", reals(X), hy, ens, ["C15", "C03"], "sph_j2 for |x| >= eps: Y (x) X^3 == 3 (sin X - X cos X) - X^2 sin X", body=" ".join(state["calls"]), mode="root")
    if have("sph_j2"):
        tabz = ["0real", "0real", "(2real / 15real)", "0real"]
        L("sph_j2_zero", reals(X), zero_h, [f"{m('sph_j2', p, [X])} == {G.slift(p, X, tabz)}" for p in outs], ["C15", "C10"], "sph_j2 at x = 0: lift of the Maclaurin table (0, 0, 2/15, 0)")
    return out


# ----------------------------------------------------------------------------------------------
# C11: nalgebra field-trait methods = the corresponding generic dual operation; constants
# ----------------------------------------------------------------------------------------------
FIELD_CONSTS = {"pi": "PI", "two_pi": "TAU", "frac_pi_2": "FRAC_PI_2", "frac_pi_3": "FRAC_PI_3", "frac_pi_4": "FRAC_PI_4",
                "frac_pi_6": "FRAC_PI_6", "frac_pi_8": "FRAC_PI_8", "frac_1_pi": "FRAC_1_PI", "frac_2_pi": "FRAC_2_PI",
                "frac_2_sqrt_pi": "FRAC_2_SQRT_PI", "e": "E", "log2_e": "LOG2_E", "log10_e": "LOG10_E", "ln_2": "LN_2", "ln_10": "LN_10"}
FIELD_FWD = ["recip", "sin", "cos", "tan", "asin", "acos", "atan", "sinh", "cosh", "tanh", "asinh", "acosh", "atanh",
             "log2", "log10", "ln", "ln_1p", "sqrt", "exp", "exp2", "exp_m1", "cbrt"]


def gen_field_lemmas(meta):
    G = Gen(meta)
    ty, outs, leaves = G.ty, G.outs, G.leaves
    out = []
    X, B, Cv = G.var("x"), G.var("b"), G.var("c")
    have, m = G.have, G.m

    def L(name, params, req, ens, what):
        out.append(Lemma(f"lem_{ty}_{name}", params, req, ens, ["C11"], what))

    for g in FIELD_FWD:
        if have("cf_" + g) and have(g):
            L("cf_" + g, reals(X), [], [f"{m('cf_' + g, p, [X])} == {m(g, p, [X])}" for p in outs], f"ComplexField::{g} returns the generic dual operation {g}")
    if have("cf_sin_cos") and have("sin_cos"):
        L("cf_sin_cos", reals(X), [], [f"{m('cf_sin_cos', k + p, [X])} == {m('sin_cos', k + p, [X])}" for k in ("0_", "1_") for p in outs], "ComplexField::sin_cos")
    if have("cf_powi") and have("powi"):
        L("cf_powi", reals(X) + ", n: int", [], [f"{m('cf_powi', p, [X], ['n'])} == {m('powi', p, [X], ['n'])}" for p in outs], "ComplexField::powi")
    for nm in ["cf_powf", "cf_powc"]:
        if have(nm) and have("powd"):
            L(nm, reals(X + B), [], [f"{m(nm, p, [X, B])} == {m('powd', p, [X, B])}" for p in outs], f"{nm}: power with a dual exponent = powd")
    if have("cf_mul_add") and have("mul_add"):
        L("cf_mul_add", reals(X + B + Cv), [], [f"{m('cf_mul_add', p, [X, B, Cv])} == {m('mul_add', p, [X, B, Cv])}" for p in outs], "ComplexField::mul_add")
    for nm in ["cf_abs", "cf_modulus", "cf_norm1"]:
        if have(nm) and have("abs"):
            L(nm, reals(X), [], [f"{m(nm, p, [X])} == {m('abs', p, [X])}" for p in outs], f"{nm} = Signed::abs (selected operand keeps its own derivative parts)")
    if have("cf_modulus_squared") and have("mul_rr"):
        L("cf_modulus_squared", reals(X), [], [f"{m('cf_modulus_squared', p, [X])} == {m('mul_rr', p, [X, X])}" for p in outs], "modulus_squared = self * self")
    if have("cf_scale") and have("mul_rr"):
        L("cf_scale", reals(X + B), [], [f"{m('cf_scale', p, [X, B])} == {m('mul_rr', p, [X, B])}" for p in outs], "scale = product")
    if have("cf_unscale") and have("div_rr"):
        L("cf_unscale", reals(X + B), [], [f"{m('cf_unscale', p, [X, B])} == {m('div_rr', p, [X, B])}" for p in outs], "unscale = quotient")
    for nm in ["cf_from_real", "cf_real", "cf_conjugate"]:
        if have(nm):
            L(nm, reals(X), [], [f"{m(nm, p, [X])} == x_{p}" for p in outs], f"{nm} is the identity")
    for nm in ["cf_imaginary", "cf_argument"]:
        if have(nm):
            L(nm, reals(X), [], [f"{m(nm, p, [X])} == 0real" for p in outs], f"{nm} is zero")
    if have("cf_log") and have("ln") and have("div_rr"):
        lnx, lnb = G.mjet("ln", [X]), G.mjet("ln", [B])
        L("cf_log", reals(X + B), [], [f"{m('cf_log', p, [X, B])} == {m('div_rr', p, [lnx, lnb])}" for p in outs], "logarithm to a dual base = ln x / ln b as dual numbers")
    if have("cf_is_finite"):
        L("cf_is_finite", reals(X), [], [f"{m('cf_is_finite', 'ret', [X])} == is_finite_r(x_re)"], "is_finite looks at the real part")
    if have("rf_atan2") and have("atan2"):
        L("rf_atan2", reals(X + B), [], [f"{m('rf_atan2', p, [X, B])} == {m('atan2', p, [X, B])}" for p in outs], "RealField::atan2 = DualNum::atan2")
    for fn_, cn in FIELD_CONSTS.items():
        if have("rf_" + fn_):
            vals = dict(zip(leaves, G.const(f"c_{cn}()")))
            L("rf_" + fn_, "", [], [f"{m('rf_' + fn_, p, [])} == {vals[p]}" for p in outs], f"RealField::{fn_}() is the constant {cn} with zero derivative parts")
    return out


# ----------------------------------------------------------------------------------------------
# plain-float instance of the interface (unit F64): forwards to the standard library functions (C06, C09, C15)
# ----------------------------------------------------------------------------------------------
def gen_float_lemmas(meta):
    fns = fn_by_mname(meta)
    out = []

    def have(n):
        return f"m_F64_{n}" in fns

    def L(name, params, req, ens, prop, what):
        out.append(Lemma(f"lem_F64_{name}", params, req, ens, prop, what))

    rname = {"exp_m1": "expm1", "ln_1p": "ln1p"}
    for g in ["recip", "sqrt", "cbrt", "exp", "exp2", "exp_m1", "ln", "log2", "log10", "ln_1p", "sin", "cos", "tan", "asin", "acos", "atan",
              "sinh", "cosh", "tanh", "asinh", "acosh", "atanh"]:
        if have(g):
            L(g, "x: real", [], [f"m_F64_{g}_ret(x) == {rname.get(g, g)}_r(x)"], ["C06"] + (["C09"] if g in ("recip", "sqrt", "cbrt") else []),
              f"plain-float {g} returns what the standard library {g} returns")
    if have("re"):
        L("re", "x: real", [], ["m_F64_re_ret(x) == x"], ["C06"], "re of a float is the float")
    if have("mul_add"):
        L("mul_add", "x: real, a: real, b: real", [], ["m_F64_mul_add_ret(x, a, b) == (x * a) + b"], ["C06", "C08"], "float mul_add")
    if have("powi"):
        L("powi", "x: real, n: int", [], ["m_F64_powi_ret(x, n) == powi_r(x, n)"], ["C06", "C09"], "float powi forwards to std powi")
    for g in ["powf", "powd"]:
        if have(g):
            L(g, "x: real, n: real", [], [f"m_F64_{g}_ret(x, n) == powf_r(x, n)"], ["C06", "C09"], f"float {g} forwards to std powf")
    if have("log"):
        L("log", "x: real, b: real", [], ["m_F64_log_ret(x, b) == log_r(x, b)"], ["C06"], "float log")
    if have("atan2"):
        L("atan2", "x: real, o: real", [], ["m_F64_atan2_ret(x, o) == atan2_r(x, o)"], ["C06"], "float atan2")
    if have("sin_cos"):
        L("sin_cos", "x: real", [], ["m_F64_sin_cos_0(x) == sin_r(x)", "m_F64_sin_cos_1(x) == cos_r(x)"], ["C06"], "float sin_cos")
    big = ["abs_r(x) >= eps_r()", "eps_r() > 0real", "x * recip_r(x) == 1real"]
    small = ["abs_r(x) < eps_r()"]
    if have("sph_j0"):
        L("sph_j0_closed", "x: real", big, ["m_F64_sph_j0_ret(x) * x == sin_r(x)"], ["C15"], "float sph_j0 = sin x / x for |x| >= eps, both signs")
        L("sph_j0_series", "x: real", small, ["m_F64_sph_j0_ret(x) == 1real - x * x / 6real"], ["C15", "C10"], "float sph_j0 series below eps (value 1 at 0)")
    if have("sph_j1"):
        L("sph_j1_closed", "x: real", big, ["m_F64_sph_j1_ret(x) * x * x == sin_r(x) - x * cos_r(x)"], ["C15"], "float sph_j1 closed form for |x| >= eps, both signs")
        L("sph_j1_series", "x: real", small, ["m_F64_sph_j1_ret(x) == x / 3real"], ["C15", "C10"], "float sph_j1 series below eps")
    if have("sph_j2"):
        L("sph_j2_closed", "x: real", big, ["m_F64_sph_j2_ret(x) * x * x * x == (3real - x * x) * sin_r(x) - 3real * x * cos_r(x)"], ["C15"], "float sph_j2 closed form for |x| >= eps, both signs")
        L("sph_j2_series", "x: real", small, ["m_F64_sph_j2_ret(x) == x * x / 15real"], ["C15", "C10"], "float sph_j2 series below eps")
    return out


# ----------------------------------------------------------------------------------------------
# C06: the real part of every result (and every predicate) depends on the real parts of the operands only
# ----------------------------------------------------------------------------------------------
def gen_transparency_lemmas(meta):
    G = Gen(meta)
    ty = G.ty
    out = []
    nonre = [l for l in G.leaves if l != "re"]
    for f in meta["functions"]:
        if f.get("variant") or f.get("manual") or not f.get("params") and not f.get("outs"):
            continue
        outs = [o[0] for o in f["outs"]]
        targets = [o for o in outs if o == "re" or o.endswith("_re") or (o == "ret" and f["name"] in ("is_zero", "is_one", "is_positive", "is_negative", "re", "cf_is_finite", "is_finite"))]
        if not targets:
            continue
        params = [(p[0], p[1]) for p in f["params"]]
        names = [p[0] for p in params]
        # operands: a flat name  P_re  marks a struct operand P
        ops = [n[:-3] for n in names if n.endswith("_re") and all((n[:-3] + "_" + l) in names for l in nonre)]
        dep = set()
        for o in ops:
            for l in nonre:
                dep.add(f"{o}_{l}")
        if not dep:
            continue
        decl, a1, a2 = [], [], []
        for n, t in params:
            if n in dep:
                decl += [f"u_{n}: {t}", f"w_{n}: {t}"]
                a1.append(f"u_{n}")
                a2.append(f"w_{n}")
            else:
                decl.append(f"{n}: {t}")
                a1.append(n)
                a2.append(n)
        mn = f["mname"]
        ens = [f"{mn}_{t}({', '.join(a1)}) == {mn}_{t}({', '.join(a2)})" for t in targets]
        nm = mn[len("m_" + ty + "_"):]
        out.append(Lemma(f"tr_{ty}_{nm}", ", ".join(decl), [], ens, ["C06"],
                         f"{f['id']}: the real part / predicate does not change when the derivative parts of the operands change"))
    return out


def gen_cmp_lemmas(meta):
    """C06: equality on the field-compatible types is decided by the real parts"""
    G = Gen(meta)
    out = []
    if G.have("pe_eq"):
        A, B = G.var("a"), G.var("b")
        out.append(Lemma(f"lem_{G.ty}_pe_eq", reals(A + B), [], [f"{G.m('pe_eq', 'ret', [A, B])} == (a_re == b_re)"], ["C06"], "== compares the real parts only"))
    return out
