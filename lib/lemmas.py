"""Generation of the property lemmas (DESIGN.md §2.1 (3b), §3.2, §4) over the mirror functions.

The *statements* come from the properties (Leibniz product, quotient q*b = a, Faa di Bruno lift of
a derivative table, forms agree, ...).  They are instantiated per type / per function from the
extraction metadata, so a function the extractor did not find simply has no lemma and is reported as a
lost anchor by the checker (never silently skipped)."""
from speclib import SHAPES, ORDER, TYPE_SHAPE, mul_call, lift_call

# ----------------------------------------------------------------------------------------------
# derivative tables  T_g(x) = (g0, g1, g2, g3)  in terms of named atoms (DESIGN.md §3.2).
# 'atoms' : let-bindings shared by the four entries
# 'hyps'  : algebraic facts about the atoms that the code==table identity may use (each is an
#           instance of a prelude axiom; the bridge lemma derives it from the property's domain)
# ----------------------------------------------------------------------------------------------
TABLES = {
    "recip": dict(atoms=[("r", "recip_r(x)")], g=["r", "-(r * r)", "2real * r * r * r", "-(6real * r * r * r * r)"]),
    "sqrt": dict(atoms=[("s", "sqrt_r(x)"), ("r", "recip_r(x)")],
                 g=["s", "s * r / 2real", "-(s * r * r) / 4real", "3real * s * r * r * r / 8real"]),
    "cbrt": dict(atoms=[("c", "cbrt_r(x)"), ("r", "recip_r(x)")],
                 g=["c", "c * r / 3real", "-(2real * c * r * r) / 9real", "10real * c * r * r * r / 27real"]),
    "exp": dict(atoms=[("e", "exp_r(x)")], g=["e", "e", "e", "e"]),
    "exp2": dict(atoms=[("e", "exp2_r(x)"), ("l", "ln_r(2real)")], g=["e", "e * l", "e * l * l", "e * l * l * l"]),
    "exp_m1": dict(atoms=[("e", "exp_r(x)")], g=["expm1_r(x)", "e", "e", "e"]),
    "ln": dict(atoms=[("r", "recip_r(x)")], g=["ln_r(x)", "r", "-(r * r)", "2real * r * r * r"]),
    "log": dict(atoms=[("r", "recip_r(x)"), ("k", "recip_r(x) / ln_r(base)")], extra_params=["base"],
                g=["log_r(x, base)", "k", "-(k * r)", "2real * k * r * r"]),
    "log2": dict(atoms=[("r", "recip_r(x)"), ("k", "recip_r(x) / ln_r(2real)")], g=["log2_r(x)", "k", "-(k * r)", "2real * k * r * r"]),
    "log10": dict(atoms=[("r", "recip_r(x)"), ("k", "recip_r(x) / ln_r(10real)")], g=["log10_r(x)", "k", "-(k * r)", "2real * k * r * r"]),
    "ln_1p": dict(atoms=[("r", "recip_r(x + 1real)")], g=["ln1p_r(x)", "r", "-(r * r)", "2real * r * r * r"]),
    "sin": dict(atoms=[("s", "sin_r(x)"), ("c", "cos_r(x)")], g=["s", "c", "-s", "-c"]),
    "cos": dict(atoms=[("s", "sin_r(x)"), ("c", "cos_r(x)")], g=["c", "-s", "-c", "s"]),
    "sinh": dict(atoms=[("s", "sinh_r(x)"), ("c", "cosh_r(x)")], g=["s", "c", "s", "c"]),
    "cosh": dict(atoms=[("s", "sinh_r(x)"), ("c", "cosh_r(x)")], g=["c", "s", "c", "s"]),
    "asin": dict(atoms=[("q", "recip_r(1real - x * x)"), ("w", "sqrt_r(recip_r(1real - x * x))")],
                 g=["asin_r(x)", "w", "x * w * q", "(2real * x * x + 1real) * w * q * q"]),
    "acos": dict(atoms=[("q", "recip_r(1real - x * x)"), ("w", "sqrt_r(recip_r(1real - x * x))")],
                 g=["acos_r(x)", "-w", "-(x * w * q)", "-((2real * x * x + 1real) * w * q * q)"]),
    "atan": dict(atoms=[("q", "recip_r(1real + x * x)")],
                 g=["atan_r(x)", "q", "-(2real * x * q * q)", "(6real * x * x - 2real) * q * q * q"]),
    "asinh": dict(atoms=[("q", "recip_r(1real + x * x)"), ("w", "sqrt_r(recip_r(1real + x * x))")],
                  g=["asinh_r(x)", "w", "-(x * w * q)", "(2real * x * x - 1real) * w * q * q"]),
    "acosh": dict(atoms=[("q", "recip_r(x * x - 1real)"), ("w", "sqrt_r(recip_r(x * x - 1real))")],
                  g=["acosh_r(x)", "w", "-(x * w * q)", "(2real * x * x + 1real) * w * q * q"]),
    "atanh": dict(atoms=[("q", "recip_r(1real - x * x)")],
                  g=["atanh_r(x)", "q", "2real * x * q * q", "(6real * x * x + 2real) * q * q * q"]),
}


def parts_of(meta):
    return [p[0] for p in meta["parts"]]


def fn_by_mname(meta):
    return {f["mname"]: f for f in meta["functions"]}


def reals(names):
    return ", ".join(f"{n}: real" for n in names)


class Lemma:
    def __init__(self, name, params, requires, ensures, prop, what, body=""):
        self.name, self.params, self.requires, self.ensures, self.prop, self.what, self.body = name, params, requires, ensures, prop, what, body

    def text(self, canary=False):
        req = (" requires " + ", ".join(self.requires)) if self.requires else ""
        if canary:
            return f"pub proof fn canary_{self.name}({self.params}) by(nonlinear_arith){req} ensures false {{}}\n"
        ens = " ensures " + ", ".join(self.ensures)
        return f"pub proof fn {self.name}({self.params}) by(nonlinear_arith){req}{ens} {{}}\n"


def gen_type_lemmas(meta):
    """returns list[Lemma] for one scalar type"""
    ty = meta["unit"]
    shape = TYPE_SHAPE[ty]
    parts = SHAPES[shape]
    assert parts == parts_of(meta), (parts, parts_of(meta))
    fns = fn_by_mname(meta)
    order = ORDER[shape]
    out = []
    A = [f"a_{p}" for p in parts]
    B = [f"b_{p}" for p in parts]
    X = [f"x_{p}" for p in parts]
    zeros = ["0real"] * (len(parts) - 1)

    def have(m):
        return f"m_{ty}_{m}" in fns

    def m(mn, part, args):
        return f"m_{ty}_{mn}_{part}({', '.join(args)})"

    # ---------------- C02: product / quotient / sum / difference / negation ----------------
    if have("mul_rr"):
        out.append(Lemma(f"lem_{ty}_mul", reals(A + B), [],
                         [f"{m('mul_rr', p, A + B)} == {mul_call(shape, p, A, B)}" for p in parts],
                         ["C02", "C03"], f"&{ty} * &{ty} is the truncated Cauchy (Leibniz) product"))
    if have("div_rr"):
        q = [m("div_rr", p, A + B) for p in parts]
        out.append(Lemma(f"lem_{ty}_div", reals(A + B), ["b_re != 0real", "b_re * recip_r(b_re) == 1real"],
                         [f"{mul_call(shape, p, q, B)} == a_{p}" for p in parts],
                         ["C02", "C03"], f"q = &{ty} / &{ty} satisfies q (x) b == a (quotient rule incl. all mixed parts)"))
    for op, sym in [("add", "+"), ("sub", "-")]:
        if have(f"{op}_rr"):
            out.append(Lemma(f"lem_{ty}_{op}", reals(A + B), [],
                             [f"{m(op + '_rr', p, A + B)} == a_{p} {sym} b_{p}" for p in parts],
                             ["C02", "C03"], f"&{ty} {sym} &{ty} is part-wise"))
    if have("neg_r"):
        out.append(Lemma(f"lem_{ty}_neg", reals(A), [], [f"{m('neg_r', p, A)} == -a_{p}" for p in parts],
                         ["C02", "C03"], f"-&{ty} is part-wise"))
    # ---------------- C08: all syntactic forms agree with the canonical form ----------------
    for op in ["add", "sub", "mul", "div"]:
        for form in ["oo", "or", "ro"]:
            if have(f"{op}_{form}") and have(f"{op}_rr"):
                out.append(Lemma(f"lem_{ty}_{op}_{form}", reals(A + B), [],
                                 [f"{m(op + '_' + form, p, A + B)} == {m(op + '_rr', p, A + B)}" for p in parts],
                                 ["C08"], f"form {form} of {op} equals the borrowed form"))
        if have(f"{op}_assign_oo") and have(f"{op}_rr"):
            out.append(Lemma(f"lem_{ty}_{op}_assign", reals(A + B), [],
                             [f"{m(op + '_assign_oo', p, A + B)} == {m(op + '_rr', p, A + B)}" for p in parts],
                             ["C08", "C07"], f"{op}-assign equals the binary operator"))
    if have("neg_o") and have("neg_r"):
        out.append(Lemma(f"lem_{ty}_neg_o", reals(A), [], [f"{m('neg_o', p, A)} == {m('neg_r', p, A)}" for p in parts], ["C08"], "owned negation"))
    # scalar right-hand operands: equal to the dual op with the scalar lifted to a constant
    C = ["f"] + zeros
    for op in ["add", "sub", "mul"]:
        for form, nm in [("of", op), ("assign_of", op + "-assign")]:
            mn = f"{op}_{form}"
            if have(mn) and have(f"{op}_rr"):
                out.append(Lemma(f"lem_{ty}_{mn}", reals(A + ["f"]), [],
                                 [f"{m(mn, p, A + ['f'])} == {m(op + '_rr', p, A + C)}" for p in parts],
                                 ["C08"], f"{nm} with a scalar equals the dual operation with the scalar lifted to a constant"))
    for mn in ["div_of", "div_assign_of"]:
        if have(mn) and have("div_rr"):
            out.append(Lemma(f"lem_{ty}_{mn}", reals(A + ["f"]), ["f != 0real", "f * recip_r(f) == 1real"],
                             [f"{m(mn, p, A + ['f'])} == {m('div_rr', p, A + C)}" for p in parts],
                             ["C08"], "division by a scalar equals the dual quotient with the scalar lifted to a constant"))
    if have("inv") and have("recip"):
        out.append(Lemma(f"lem_{ty}_inv", reals(A), [], [f"{m('inv', p, A)} == {m('recip', p, A)}" for p in parts], ["C08"], "inv == recip"))
    if have("from"):
        out.append(Lemma(f"lem_{ty}_from", "f: real", [], [f"{m('from', p, ['f'])} == {c}" for p, c in zip(parts, C)], ["C08"], "From<F> lifts to a constant"))
    if have("zero"):
        out.append(Lemma(f"lem_{ty}_zero", "", [], [f"{m('zero', p, [])} == 0real" for p in parts], ["C08"], "zero"))
    if have("one"):
        out.append(Lemma(f"lem_{ty}_one", "", [], [f"{m('one', p, [])} == {c}" for p, c in zip(parts, ['1real'] + zeros)], ["C08"], "one"))
    if have("mul_add") and have("mul_rr"):
        Cc = [f"c_{p}" for p in parts]
        prod = [m("mul_rr", p, A + B) for p in parts]
        out.append(Lemma(f"lem_{ty}_mul_add", reals(A + B + Cc), [],
                         [f"{m('mul_add', p, A + B + Cc)} == {pr} + c_{p}" for p, pr in zip(parts, prod)], ["C08", "C03"], "default mul_add = self*a+b"))
    # ---------------- C01: chain rule and elementary functions ----------------
    G = ["g0", "g1", "g2", "g3"][: order + 1]
    if have("chain_rule"):
        out.append(Lemma(f"lem_{ty}_chain_rule", reals(X + G), [],
                         [f"{m('chain_rule', p, X + G)} == {lift_call(shape, p, X, G)}" for p in parts],
                         ["C01", "C03"], "chain rule = Faa di Bruno lift (nested first-order chain rule)"))
    for g, tab in TABLES.items():
        if not have(g):
            continue
        extra = tab.get("extra_params", [])
        lets = "let x = x_re; " + "".join(f"let {n} = {e}; " for n, e in tab["atoms"])
        ens = []
        for p in parts:
            ens.append("({ " + lets + f"{m(g, p, X + extra)} == {lift_call(shape, p, X, ['(' + t + ')' for t in tab['g']])}" + " })")
        out.append(Lemma(f"lem_{ty}_{g}", reals(X + extra), tab.get("hyps", []), ens, ["C01", "C03"],
                         f"{g}: result jet = lift of the derivative table of {g} at x.re"))
    return out
