"""Replay of Verus-reported violations on the real code: given failed obligations, search for a concrete input on
which the real crate (evaluated by the `replay` binary built against the tree under test) disagrees with the independent
numeric oracle (lib/oracle.py).  This only ever adds a witness to a violation the verifier has already reported."""
import itertools
import math
import os
import random
import re
import shutil
import subprocess

import oracle

VERIF = os.path.dirname(os.path.dirname(os.path.abspath(__file__)))
NPARTS = {"F64": 1, "Dual": 2, "Dual2": 3, "Dual3": 4, "HyperDual": 4, "Dual__Dual": 4, "HyperHyperDual": 8, "DualVec": 3, "Dual2Vec": 7, "HyperDualVec": 9}
BLOCKS = {"DualVec": [(1, 3)], "Dual2Vec": [(1, 3), (3, 7)], "HyperDualVec": [(1, 3), (3, 5), (5, 9)]}
UNARY = ["recip", "sqrt", "cbrt", "exp", "exp2", "exp_m1", "ln", "log2", "log10", "ln_1p", "sin", "cos", "tan", "asin", "acos", "atan",
         "sinh", "cosh", "tanh", "asinh", "acosh", "atanh", "sph_j0", "sph_j1", "sph_j2", "abs", "signum", "inv", "neg_o", "neg_r", "sin_cos", "clone"]
BINARY = [op + "_" + f for op in ("add", "sub", "mul", "div") for f in ("oo", "or", "ro", "rr")] + [op + "_assign_oo" for op in ("add", "sub", "mul", "div")]
SCALAR = [op + s for op in ("add", "sub", "mul", "div") for s in ("_of", "_assign_of")]
RE_POINTS = {
    "default": [1.2, 0.3, -0.7, 2.5, -1.8, 0.6, -0.25],
    "pos": [1.2, 0.3, 2.5, 0.6, 7.0], "unit": [0.3, -0.7, 0.6, -0.25, 0.9], "gt1": [1.2, 2.5, 7.0],
    "gtm1": [1.2, 0.3, -0.7, 2.5, 0.0, 1e-12, -1e-12], "nonzero": [1.2, -0.7, 2.5, -1.8, 0.3],
    "sph": [1.2, -2.0, 0.0, -0.7, 5.0, 1e-20, -1e-20, -50.0],
}
DOMAIN = {"recip": "nonzero", "inv": "nonzero", "sqrt": "pos", "cbrt": "nonzero", "ln": "pos", "log2": "pos", "log10": "pos", "log": "pos", "ln_1p": "gtm1",
          "asin": "unit", "acos": "unit", "atanh": "unit", "acosh": "gt1", "powf": "pos", "powd": "pos", "abs": "nonzero", "signum": "nonzero",
          "sph_j0": "sph", "sph_j1": "sph", "sph_j2": "sph", "exp_m1": "gtm1"}
DER = [1.0, -2.0, 0.5, 3.0, -0.75, 2.0, -1.5, 0.25, 4.0, 0.0]  # a zero part now and then (fast paths keyed on a vanishing part)


def build_binary(repo):
    tag = re.sub(r"[^A-Za-z0-9]+", "_", os.path.realpath(repo)).strip("_")[-60:] or "repo"
    crate = os.path.join(VERIF, ".cache", "replay-crate-" + tag)
    os.makedirs(crate, exist_ok=True)
    tmpl = open(os.path.join(VERIF, "replay", "Cargo.toml.in")).read()
    with open(os.path.join(crate, "Cargo.toml"), "w") as f:
        f.write(tmpl.replace("@VERIF_REPO@", repo))
    lock = os.path.join(repo, "Cargo.lock")
    shutil.copyfile(lock if os.path.exists(lock) else "/repo/Cargo.lock", os.path.join(crate, "Cargo.lock"))
    link = os.path.join(crate, "src")
    if not os.path.islink(link):
        os.symlink(os.path.join(VERIF, "replay", "src"), link)
    tdir = os.path.join(VERIF, ".cache", "replay-target" + ("" if os.path.realpath(repo) == "/repo" else "-" + tag))
    env = dict(os.environ, CARGO_TARGET_DIR=tdir, CARGO_NET_OFFLINE="true")
    p = subprocess.run(["cargo", "build", "--release", "--offline", "--manifest-path", os.path.join(crate, "Cargo.toml")], env=env, capture_output=True, text=True)
    if p.returncode != 0:
        return None, p.stderr[-800:]
    return os.path.join(tdir, "release", "replay"), ""


def fmt_req(ty, fn, ops, scalars):
    toks = [ty, fn, str(len(ops))]
    for o in ops:
        toks += ["_" if v is None else repr(float(v)) for v in o]
    toks.append("|")
    toks += [repr(float(s)) for s in scalars]
    return " ".join(toks)


def gen_operand(ty, re_val, rng, absent_pattern=None):
    n = NPARTS[ty]
    vals = [re_val] + [rng.choice(DER) for _ in range(n - 1)]
    if ty == "Dual2Vec":
        vals[5] = vals[4]  # symmetric Hessian
    if absent_pattern is not None and ty in BLOCKS:
        for k, (a, b) in enumerate(BLOCKS[ty]):
            if absent_pattern[k]:
                for i in range(a, b):
                    vals[i] = None
    return vals


def requests_for(ty, fn, rng, nsamples):
    """yield (ops, scalars) candidate inputs for one function"""
    # the function's interior points plus the special points of C10/C15; points outside the domain are dropped later
    # (the oracle raises or returns a non-finite value there)
    dom = DOMAIN.get(fn, "default")
    inside = {"nonzero": lambda x: x != 0.0, "pos": lambda x: x > 0.0, "unit": lambda x: abs(x) < 1.0, "gt1": lambda x: x > 1.0,
              "gtm1": lambda x: x > -1.0}.get(dom, lambda x: True)
    pts = RE_POINTS[dom] + [x for x in (0.0, 1.0, -1.0, 5.5) if inside(x)]
    pats = [None]
    if ty in BLOCKS:
        pats += [p for p in itertools.product([False, True], repeat=len(BLOCKS[ty])) if any(p)]
    out = []
    base = fn
    nops = 1
    if fn in BINARY or fn in ("atan2", "powd"):
        nops = 2
    if fn == "mul_add":
        nops = 3
    if fn in ("from", "zero", "one"):
        nops = 0
    for _ in range(nsamples):
        sc = []
        if fn == "powi":
            sc = [rng.choice([3, -2, 5, 0, 1, 2, 7, -1, 50000, 2000, -2000, 4])]
        elif fn == "powf":
            sc = [rng.choice([4.2, -1.5, 0.5, 2.0, 3.0, 1.0, 0.0, 2.5, 1.5])]
        elif fn == "log":
            sc = [rng.choice([2.0, 10.0, 0.5, 3.0])]
        elif fn in SCALAR or fn == "from":
            sc = [rng.choice([2.0, -0.5, 4.0, 0.25])]
        ops = []
        for k in range(nops):
            if fn == "atan2":
                r = rng.choice([1.0, -2.0, 0.5, 0.0, -0.2, 0.4]) if k == 0 else rng.choice([0.0, 1.5, -0.5, 2.0, -0.4])
            elif fn == "powd" and k == 1:
                r = rng.choice([0.0, 1.0, 2.0, 0.5, -1.5, 3.0])
            elif fn in ("div_oo", "div_or", "div_ro", "div_rr", "div_assign_oo") and k == 1:
                r = rng.choice([2.0, -0.5, 4.0, 1.0, -8.0])
            elif fn == "powf" and sc and (sc[0] >= 1.0) and rng.random() < 0.3:
                r = 0.0
            elif fn == "powi" and sc and sc[0] >= 0 and rng.random() < 0.2:
                r = 0.0
            elif fn == "powi" and sc and abs(sc[0]) > 100:
                r = rng.choice([1.0, 1.001, -1.0])
            elif fn == "powi":
                r = rng.choice([1.2, -0.7, 2.0, -1.5, 0.5])
            else:
                r = rng.choice(pts)
            ops.append(gen_operand(ty, r, rng, rng.choice(pats)))
        if fn == "atan2" and ops[0][0] == 0.0 and ops[1][0] == 0.0:
            continue
        out.append((ops, sc))
    return out


def close(a, b):
    if a is None:
        a = 0.0
    if b is None:
        b = 0.0
    if math.isnan(a) or math.isinf(a):
        return False
    return abs(a - b) <= 1e-7 * (1.0 + abs(b))


def search(binary, ty, fns, seed=0, nsamples=60):
    """returns a witness dict or None"""
    rng = random.Random(seed)
    reqs = []
    for fn in fns:
        if ty == "F64" and fn not in UNARY[:25] + ["powi", "powf", "powd", "log", "atan2", "mul_add", "sin_cos"]:
            continue
        for ops, sc in requests_for(ty, fn, rng, nsamples):
            try:
                exp = oracle.expected(ty, fn, ops, sc)
            except (ValueError, ZeroDivisionError, OverflowError, KeyError):
                continue
            flat = [v for r in exp for v in r]
            if any(math.isnan(v) or math.isinf(v) for v in flat):
                continue
            reqs.append((fn, ops, sc, exp))
    if not reqs:
        return None
    inp = "\n".join(fmt_req(ty, fn, ops, sc) for fn, ops, sc, _ in reqs) + "\n"
    p = subprocess.run([binary], input=inp, capture_output=True, text=True, timeout=300)
    lines = p.stdout.splitlines()
    for (fn, ops, sc, exp), ln in zip(reqs, lines):
        if ln.startswith("ERR"):
            continue
        if ln.startswith("PANIC"):
            return dict(type=ty, function=fn, operands=ops, scalars=sc, observed="panic", expected=exp)
        got = [[None if t == "_" else float(t) for t in blk.split()] for blk in ln[3:].split(" ; ")]
        ok = len(got) == len(exp) and all(len(g) == len(e) and all(close(x, y) for x, y in zip(g, e)) for g, e in zip(got, exp))
        if ok and fn in ("exp_m1", "ln_1p") and got and got[0] and exp[0][0] not in (None, 0.0):
            # these two exist for their accuracy at tiny arguments: the real part must agree to relative accuracy
            g0 = got[0][0] if got[0][0] is not None else 0.0
            ok = abs(g0 - exp[0][0]) <= 1e-9 * abs(exp[0][0])
        if not ok:
            return dict(type=ty, function=fn, operands=ops, scalars=sc, observed=got, expected=exp)
    return None


# ---------------------------------------------------------------- Display (C18)
DISPLAY_PATTERN = {
    "Dual": "{} + {}\u03b5", "Dual2": "{} + {}\u03b51 + {}\u03b51\u00b2", "Dual3": "{} + {}v1 + {}v2 + {}v3",
    "HyperDual": "{} + {}\u03b51 + {}\u03b52 + {}\u03b51\u03b52",
    "HyperHyperDual": "{} + {}\u03b51 + {}\u03b52 + {}\u03b53 + {}\u03b51\u03b52 + {}\u03b51\u03b53 + {}\u03b52\u03b53 + {}\u03b51\u03b52\u03b53",
}
DISPLAY_SYMBOLS = {"DualVec": ["\u03b5"], "Dual2Vec": ["\u03b51", "\u03b51\u00b2"], "HyperDualVec": ["\u03b51", "\u03b52", "\u03b51\u03b52"]}


MATRIX_WILDCARD = "\x00MATRIX\x00"


def display_matches(got, exp):
    if MATRIX_WILDCARD not in exp:
        return got == exp
    pat = "(?s:.+?)".join(re.escape(seg) for seg in exp.split(MATRIX_WILDCARD))
    return re.fullmatch(pat, got) is not None


def fnum(v):
    """Rust's `{}` of an f64 for the dyadic candidate values used here"""
    return str(int(v)) if float(v) == int(v) else repr(float(v))


def expected_display(ty, parts):
    """documented rendering (property C18); None when it involves nalgebra's matrix rendering"""
    if ty in DISPLAY_PATTERN:
        out = DISPLAY_PATTERN[ty]
        for v in parts:
            out = out.replace("{}", fnum(v), 1)
        return out
    if ty == "Dual__Dual":
        inner = lambda a, b: "%s + %s\u03b5" % (fnum(a), fnum(b))  # noqa: E731
        return "%s + %s\u03b5" % (inner(parts[0], parts[1]), inner(parts[2], parts[3]))
    if ty in BLOCKS:
        out = fnum(parts[0])
        for (a, b), sym in zip(BLOCKS[ty], DISPLAY_SYMBOLS[ty]):
            blk = parts[a:b]
            if blk[0] is None:
                continue
            if len(blk) > 2:
                # a 2x2 matrix part: nalgebra's rendering is outside the oracle; only its position and symbol are expected
                out += " + " + MATRIX_WILDCARD + sym
                continue
            out += " + [" + ", ".join(fnum(v) for v in blk) + "]" + sym
        return out
    return None


def search_display(binary, seed=0):
    rng = random.Random(seed)
    vals = [1.5, -2.0, 0.25, 3.0, -0.75, 4.0, 0.5, -1.25, 8.0]
    reqs = []
    zero_variants = True
    for ty in ["Dual", "Dual2", "Dual3", "HyperDual", "HyperHyperDual", "Dual__Dual", "DualVec", "Dual2Vec", "HyperDualVec"]:
        for _ in range(6):
            parts = [rng.choice(vals) for _ in range(NPARTS[ty])]
            if len(set(parts)) < min(len(parts), 4):
                continue
            pats = [None]
            if ty in BLOCKS:
                pats = list(itertools.product([False, True], repeat=len(BLOCKS[ty])))
            for pat in pats:
                p2 = list(parts)
                if pat is not None:
                    for k, (a, b) in enumerate(BLOCKS[ty]):
                        if pat[k]:
                            for i in range(a, b):
                                p2[i] = None
                exp = expected_display(ty, p2)
                if exp is not None:
                    reqs.append((ty, p2, exp))
                # the same value with every present derivative part explicitly zero (a present zero part is still printed)
                p3 = [p2[0]] + [None if v is None else 0.0 for v in p2[1:]]
                exp3 = expected_display(ty, p3)
                if zero_variants and exp3 is not None:
                    reqs.append((ty, p3, exp3))
    inp = "\n".join(fmt_req(ty, "display", [p2], []) for ty, p2, _ in reqs) + "\n"
    p = subprocess.run([binary], input=inp, capture_output=True, text=True, timeout=120)
    for (ty, p2, exp), ln in zip(reqs, p.stdout.splitlines()):
        if ln.startswith("STR "):
            got = ln[4:].replace("\\n", "\n")
            if not display_matches(got, exp):
                exp = exp.replace(MATRIX_WILDCARD, "<nalgebra rendering of the matrix part>")
                return dict(type=ty, function="display", operands=[p2], scalars=[], observed=got, expected=exp, oracle="documented rendering of the type (lib/replay.py)")
        elif ln.startswith("PANIC"):
            return dict(type=ty, function="display", operands=[p2], scalars=[], observed="panic", expected=exp, oracle="documented rendering of the type (lib/replay.py)")
    return None


def candidates_for(unit, kind, name):
    """map a failed obligation to (type, [functions]) candidates for the search"""
    fns = []
    m = re.match(r"lem_(.+?)_(cf_|rf_|tr_)?(.*)$", name)
    ty = unit if unit in NPARTS else None
    if kind == "lemma" and m:
        g = name[len("lem_" + unit + "_"):] if name.startswith("lem_" + unit + "_") else m.group(3)
        g0 = g
        for pre in ("cf_", "rf_"):
            if g0.startswith(pre):
                g0 = g0[len(pre):]
        table = {"mul": ["mul_rr", "mul_oo"], "div": ["div_rr", "div_oo"], "add": ["add_rr"], "sub": ["sub_rr"], "neg": ["neg_r"], "neg_o": ["neg_o"],
                 "mul_assign": ["mul_assign_oo"], "div_assign": ["div_assign_oo"], "add_assign": ["add_assign_oo"], "sub_assign": ["sub_assign_oo"]}
        if g0 in table:
            fns = table[g0]
        elif re.match(r"(add|sub|mul|div)_(oo|or|ro)$", g0) or g0 in SCALAR:
            fns = [g0]
        elif g0.startswith("powi"):
            fns = ["powi"]
        elif g0.startswith("powf"):
            fns = ["powf"]
        elif g0.startswith("sph_j"):
            fns = [g0[:6]]
        elif g0.startswith("atan2"):
            fns = ["atan2"]
        elif g0 == "chain_rule":
            fns = UNARY[:25] + ["div_rr"]
        elif g0 in UNARY or g0 in ("powd", "mul_add", "from", "zero", "one", "sin_cos", "log"):
            fns = [g0]
    elif kind in ("definedness", "overflow", "contract"):
        mm = re.search(r"::([a-z_0-9]+)(#.*)?$", name)
        g0 = mm.group(1) if mm else ""
        if unit == "Derivative":
            return [(t, BINARY + SCALAR + ["neg_o", "neg_r", "clone"]) for t in ("DualVec", "Dual2Vec", "HyperDualVec")]
        if g0 in UNARY or g0 in ("powi", "powf", "powd", "atan2", "mul_add", "log"):
            fns = [g0]
        elif g0 in ("mul", "div", "add", "sub"):
            fns = [g0 + "_rr", g0 + "_oo"]
    if ty is None or not fns:
        return []
    return [(ty, fns)]


def find_witness(repo, failed, seed=0):
    """failed: list of (unit, kind, name).  Returns (witness or None, note)"""
    cands = []
    if any(name.endswith("Display::fmt") or name.endswith("inherent::fmt") for _, _, name in failed):
        binary, err = build_binary(repo)
        if binary is None:
            return None, "replay binary could not be built: " + err
        try:
            w = search_display(binary, seed)
        except Exception as e:
            return None, "replay search failed: %r" % (e,)
        if w:
            return w, ""
    for unit, kind, name in failed:
        for c in candidates_for(unit, kind, name):
            if c not in cands:
                cands.append(c)
    if not cands:
        return None, "no replayable candidate operation for the failed obligations"
    binary, err = build_binary(repo)
    if binary is None:
        return None, "replay binary could not be built: " + err
    for ty, fns in cands[:12]:
        try:
            w = search(binary, ty, fns, seed)
        except Exception as e:  # the replay must never turn a decided violation into a crash
            return None, "replay search failed: %r" % (e,)
        if w:
            return w, ""
    return None, "no candidate input distinguished the real code from the numeric oracle (%d operation groups tried)" % len(cands[:12])
