"""Generator of the model prelude (DESIGN.md §2.2): the assumed contracts of everything
outside the crate.  Pure text generation; the output is written to gen/ on every run and is
listed verbatim (external_body / uninterp / admit counts) in the evidence."""

UNARY_R = ["recip", "sqrt", "cbrt", "exp", "exp2", "expm1", "ln", "log2", "log10", "ln1p", "sin", "cos", "tan",
           "asin", "acos", "atan", "sinh", "cosh", "tanh", "asinh", "acosh", "atanh", "signum",
           "sph_j0", "sph_j1", "sph_j2"]
CONSTS = ["E", "PI", "FRAC_1_PI", "FRAC_1_SQRT_2", "FRAC_2_PI", "FRAC_2_SQRT_PI", "FRAC_PI_2", "FRAC_PI_3",
          "FRAC_PI_4", "FRAC_PI_6", "FRAC_PI_8", "LN_10", "LN_2", "LOG10_E", "LOG2_E", "SQRT_2", "TAU"]


def spec_ops(tr, lhs, rhs, out, req="true", lts=""):
    sn = {"Add": "add", "Sub": "sub", "Mul": "mul", "Div": "div", "Neg": "neg",
          "AddAssign": "add_assign", "SubAssign": "sub_assign", "MulAssign": "mul_assign", "DivAssign": "div_assign"}[tr]
    targ = f"<{rhs}>" if rhs else ""
    slf = "&self" if tr.endswith("Assign") else "self"
    params = f"{slf}, rhs: {rhs}" if rhs else slf
    amp = "&" if tr.endswith("Assign") else ""
    return (f"impl{lts} vstd::std_specs::ops::{tr}SpecImpl{targ} for {lhs} {{ open spec fn obeys_{sn}_spec() -> bool {{ false }} "
            f"open spec fn {sn}_req({params}) -> bool {{ {req} }} open spec fn {sn}_spec({params}) -> {amp}{out} {{ arbitrary() }} }}\n")


def binop(tr, lhs, rhs, sym, lts=""):
    m = tr.lower()
    req = "rhs@ != 0real" if tr == "Div" else "true"
    extra = ""
    if tr == "Mul":
        # true facts about real multiplication that the default (linear) mode cannot derive
        extra = ", self@ == rhs@ ==> r@ >= 0real, (self@ > 0real && rhs@ > 0real) ==> r@ > 0real"
    s = spec_ops(tr, lhs, rhs, "Sc" if lhs != "Fl" else "Fl", req, lts)
    out = "Sc" if lhs != "Fl" else "Fl"
    s += (f"impl{lts} core::ops::{tr}<{rhs}> for {lhs} {{ type Output = {out}; #[verifier::external_body] "
          f"fn {m}(self, rhs: {rhs}) -> (r: {out}) ensures r@ == self@ {sym} rhs@{extra} {{ unimplemented!() }} }}\n")
    return s


def assignop(tr, lhs, rhs, sym):
    m = {"AddAssign": "add_assign", "SubAssign": "sub_assign", "MulAssign": "mul_assign", "DivAssign": "div_assign"}[tr]
    req = "rhs@ != 0real" if tr == "DivAssign" else "true"
    s = spec_ops(tr, lhs, rhs, lhs, req)
    s += (f"impl core::ops::{tr}<{rhs}> for {lhs} {{ #[verifier::external_body] "
          f"fn {m}(&mut self, rhs: {rhs}) ensures final(self)@ == old(self)@ {sym} rhs@ {{ unimplemented!() }} }}\n")
    return s


def generate():
    o = []
    w = o.append
    w("""
// ===================== model prelude (assumed contracts; DESIGN.md §2.2) =====================
#[verifier::external_body] pub struct Sc { v: f64 }
#[verifier::external_body] pub struct Fl { v: f64 }
impl View for Sc { type V = real; uninterp spec fn view(&self) -> real; }
impl View for Fl { type V = real; uninterp spec fn view(&self) -> real; }
""")
    for f in UNARY_R:
        w(f"pub uninterp spec fn {f}_r(x: real) -> real;\n")
    w("pub uninterp spec fn log_r(x: real, b: real) -> real;\n")
    w("pub uninterp spec fn atan2_r(y: real, x: real) -> real;\n")
    w("pub uninterp spec fn powf_r(x: real, n: real) -> real;\n")
    w("pub uninterp spec fn powi_r(x: real, n: int) -> real;\n")
    w("pub uninterp spec fn is_positive_r(x: real) -> bool;\n")
    w("pub uninterp spec fn is_negative_r(x: real) -> bool;\n")
    w("pub uninterp spec fn eps_r() -> real;\n")
    w("pub uninterp spec fn is_finite_r(x: real) -> bool;\n")
    w("pub uninterp spec fn floor_r(x: real) -> int;\n")
    # core library functions vstd has no specification for
    w("pub assume_specification<T>[ Option::<T>::or ](a: Option<T>, b: Option<T>) -> (r: Option<T>) ensures r == (match a { Some(_) => a, None => b });\n")
    w("#[verifier::inline] pub open spec fn is_int_r(x: real) -> bool { floor_r(x) as real == x }\n")
    w("// a / b with the value at a == 0 made explicit (so that an absent (= zero) part divided by a scalar is zero without arithmetic reasoning)\n")
    w("#[verifier::inline] pub open spec fn rdiv(a: real, b: real) -> real { if a == 0real { 0real } else { a / b } }\n")
    w("#[verifier::inline] pub open spec fn abs_r(x: real) -> real { if x >= 0real { x } else { -x } }\n")
    for c in CONSTS:
        w(f"pub uninterp spec fn c_{c}() -> real;\n")
    # ---- Sc
    w("impl Clone for Sc { #[verifier::external_body] fn clone(&self) -> (r: Sc) ensures r@ == self@ { unimplemented!() } }\n")
    w("impl Clone for Fl { #[verifier::external_body] fn clone(&self) -> (r: Fl) ensures r@ == self@ { unimplemented!() } }\n")
    w("impl Copy for Fl {}\n")
    w("impl Copy for Sc {}\n")
    for tr, sym in [("Add", "+"), ("Sub", "-"), ("Mul", "*"), ("Div", "/")]:
        w(binop(tr, "Sc", "Sc", sym))
        w(binop(tr, "Sc", "&'a Sc", sym, "<'a>"))
        w(binop(tr, "Sc", "Fl", sym))
        w(binop(tr, "Fl", "Fl", sym))
    for lhs in ["Sc", "Fl"]:
        w(spec_ops("Neg", lhs, "", lhs))
        w(f"impl core::ops::Neg for {lhs} {{ type Output = {lhs}; #[verifier::external_body] fn neg(self) -> (r: {lhs}) ensures r@ == -self@ {{ unimplemented!() }} }}\n")
    for tr, sym in [("AddAssign", "+"), ("SubAssign", "-"), ("MulAssign", "*"), ("DivAssign", "/")]:
        w(assignop(tr, "Sc", "Sc", sym))
        w(assignop(tr, "Sc", "Fl", sym))
    w("""
impl PartialEq for Fl { #[verifier::external_body] fn eq(&self, o: &Fl) -> (r: bool) ensures r == (self@ == o@) { unimplemented!() } }
impl PartialOrd for Fl {
    #[verifier::external_body] fn partial_cmp(&self, o: &Fl) -> (r: Option<core::cmp::Ordering>) { unimplemented!() }
    #[verifier::external_body] fn lt(&self, o: &Fl) -> (r: bool) ensures r == (self@ < o@) { unimplemented!() }
    #[verifier::external_body] fn le(&self, o: &Fl) -> (r: bool) ensures r == (self@ <= o@) { unimplemented!() }
    #[verifier::external_body] fn gt(&self, o: &Fl) -> (r: bool) ensures r == (self@ > o@) { unimplemented!() }
    #[verifier::external_body] fn ge(&self, o: &Fl) -> (r: bool) ensures r == (self@ >= o@) { unimplemented!() }
}
""")
    w("impl Fl {\n")
    w("  #[verifier::external_body] pub fn lit(Ghost(x): Ghost<real>) -> (r: Fl) ensures r@ == x { unimplemented!() }\n")
    w("  #[verifier::external_body] pub fn from_i32(n: i32) -> (r: Fl) ensures r@ == n as real { unimplemented!() }\n")
    w("  #[verifier::external_body] pub fn one() -> (r: Fl) ensures r@ == 1real { unimplemented!() }\n")
    w("  #[verifier::external_body] pub fn zero() -> (r: Fl) ensures r@ == 0real { unimplemented!() }\n")
    w("  #[verifier::external_body] pub fn epsilon() -> (r: Fl) ensures r@ == eps_r(), r@ > 0real { unimplemented!() }\n")
    w("  #[verifier::external_body] pub fn is_zero(&self) -> (r: bool) ensures r == (self@ == 0real) { unimplemented!() }\n")
    w("  #[verifier::external_body] pub fn is_one(&self) -> (r: bool) ensures r == (self@ == 1real) { unimplemented!() }\n")
    w("  #[verifier::external_body] pub fn abs(self) -> (r: Fl) ensures r@ == abs_r(self@) { unimplemented!() }\n")
    w("  #[verifier::external_body] pub fn recip(self) -> (r: Fl) requires self@ != 0real ensures r@ == recip_r(self@), self@ > 0real ==> r@ > 0real, self@ < 0real ==> r@ < 0real, r@ != 0real { unimplemented!() }\n")
    w("  #[verifier::external_body] pub fn ln(self) -> (r: Fl) requires self@ > 0real ensures r@ == ln_r(self@), self@ > 1real ==> r@ > 0real { unimplemented!() }\n")
    for c in CONSTS:
        w(f"  #[verifier::external_body] pub fn {c}() -> (r: Fl) ensures r@ == c_{c}() {{ unimplemented!() }}\n")
    # the rest of the num_traits::Float interface the generic code may use on F (same specifications as on the scalar)
    fdom = {"sqrt": "self@ >= 0real", "log2": "self@ > 0real", "log10": "self@ > 0real", "ln_1p": "self@ > -1real", "asin": "-1real <= self@ <= 1real",
            "acos": "-1real <= self@ <= 1real", "acosh": "self@ >= 1real", "atanh": "-1real < self@ < 1real"}
    frn = {"exp_m1": "expm1", "ln_1p": "ln1p"}
    for m in ["sqrt", "cbrt", "exp", "exp2", "exp_m1", "log2", "log10", "ln_1p", "sin", "cos", "tan", "asin", "acos", "atan", "sinh", "cosh", "tanh",
              "asinh", "acosh", "atanh", "signum"]:
        req = f" requires {fdom[m]}" if m in fdom else ""
        w(f"  #[verifier::external_body] pub fn {m}(self) -> (r: Fl){req} ensures r@ == {frn.get(m, m)}_r(self@) {{ unimplemented!() }}\n")
    w("  #[verifier::external_body] pub fn sin_cos(self) -> (r: (Fl, Fl)) ensures r.0@ == sin_r(self@), r.1@ == cos_r(self@) { unimplemented!() }\n")
    w("  #[verifier::external_body] pub fn atan2(self, other: Fl) -> (r: Fl) ensures r@ == atan2_r(self@, other@) { unimplemented!() }\n")
    w("  #[verifier::external_body] pub fn powi(self, n: i32) -> (r: Fl) requires self@ != 0real || n >= 0 ensures r@ == powi_r(self@, n as int) { unimplemented!() }\n")
    w("  #[verifier::external_body] pub fn powf(self, n: Fl) -> (r: Fl) requires self@ > 0real || (self@ == 0real && n@ >= 0real) ensures r@ == powf_r(self@, n@) { unimplemented!() }\n")
    w("}\n")
    # Sc methods
    dom = {
        "recip": "self@ != 0real", "sqrt": "self@ >= 0real", "ln": "self@ > 0real", "log2": "self@ > 0real",
        "log10": "self@ > 0real", "ln_1p": "self@ > -1real", "asin": "-1real <= self@ <= 1real",
        "acos": "-1real <= self@ <= 1real", "acosh": "self@ >= 1real", "atanh": "-1real < self@ < 1real",
    }
    extra = {
        "recip": ", self@ > 0real ==> r@ > 0real, self@ < 0real ==> r@ < 0real, r@ != 0real",
        "sqrt": ", r@ >= 0real, self@ > 0real ==> r@ > 0real",
        "exp": ", r@ > 0real", "exp2": ", r@ > 0real", "cosh": ", r@ > 0real",
    }
    rname = {"exp_m1": "expm1", "ln_1p": "ln1p"}
    w("impl Sc {\n")
    w("  #[verifier::external_body] pub fn one() -> (r: Sc) ensures r@ == 1real { unimplemented!() }\n")
    w("  #[verifier::external_body] pub fn zero() -> (r: Sc) ensures r@ == 0real { unimplemented!() }\n")
    w("  #[verifier::external_body] pub fn from(f: Fl) -> (r: Sc) ensures r@ == f@ { unimplemented!() }\n")
    w("  #[verifier::external_body] pub fn re(&self) -> (r: Fl) ensures r@ == self@ { unimplemented!() }\n")
    for m in ["recip", "sqrt", "cbrt", "exp", "exp2", "exp_m1", "ln", "log2", "log10", "ln_1p", "sin", "cos", "tan", "asin",
              "acos", "atan", "sinh", "cosh", "tanh", "asinh", "acosh", "atanh", "sph_j0", "sph_j1", "sph_j2"]:
        req = f" requires {dom[m]}" if m in dom else ""
        w(f"  #[verifier::external_body] pub fn {m}(&self) -> (r: Sc){req} ensures r@ == {rname.get(m, m)}_r(self@){extra.get(m, '')} {{ unimplemented!() }}\n")
    w("  #[verifier::external_body] pub fn sin_cos(&self) -> (r: (Sc, Sc)) ensures r.0@ == sin_r(self@), r.1@ == cos_r(self@) { unimplemented!() }\n")
    w("  #[verifier::external_body] pub fn log(&self, base: Fl) -> (r: Sc) requires self@ > 0real, base@ > 0real ensures r@ == log_r(self@, base@) { unimplemented!() }\n")
    w("  #[verifier::external_body] pub fn atan2(&self, other: Sc) -> (r: Sc) ensures r@ == atan2_r(self@, other@) { unimplemented!() }\n")
    w("  #[verifier::external_body] pub fn powi(&self, n: i32) -> (r: Sc) requires self@ != 0real || n >= 0 ensures r@ == powi_r(self@, n as int) { unimplemented!() }\n")
    w("  #[verifier::external_body] pub fn powf(&self, n: Fl) -> (r: Sc) requires self@ > 0real || (self@ == 0real && n@ >= 0real) ensures r@ == powf_r(self@, n@) { unimplemented!() }\n")
    w("  #[verifier::external_body] pub fn is_zero(&self) -> (r: bool) ensures r == (self@ == 0real) { unimplemented!() }\n")
    w("  #[verifier::external_body] pub fn is_one(&self) -> (r: bool) ensures r == (self@ == 1real) { unimplemented!() }\n")
    w("  #[verifier::external_body] pub fn is_positive(&self) -> (r: bool) ensures r == is_positive_r(self@) { unimplemented!() }\n")
    w("  #[verifier::external_body] pub fn is_negative(&self) -> (r: bool) ensures r == is_negative_r(self@) { unimplemented!() }\n")
    w("  #[verifier::external_body] pub fn eq(&self, o: &Sc) -> (r: bool) ensures r == (self@ == o@) { unimplemented!() }\n")
    w("  #[verifier::external_body] pub fn is_finite(&self) -> (r: bool) ensures r == is_finite_r(self@) { unimplemented!() }\n")
    for c in CONSTS:
        w(f"  #[verifier::external_body] pub fn {c}() -> (r: Sc) ensures r@ == c_{c}() {{ unimplemented!() }}\n")
    w("}\n")
    # ---- axioms on the uninterpreted real functions (each is an assumption; listed in the evidence)
    w("""
pub proof fn ax_recip(x: real) requires x != 0real ensures x * recip_r(x) == 1real { admit(); }
pub proof fn ax_recip_sign(x: real) ensures x > 0real ==> recip_r(x) > 0real, x < 0real ==> recip_r(x) < 0real { admit(); }
pub proof fn ax_sqrt(x: real) requires x >= 0real ensures sqrt_r(x) * sqrt_r(x) == x, sqrt_r(x) >= 0real { admit(); }
pub proof fn ax_cbrt(x: real) ensures cbrt_r(x) * cbrt_r(x) * cbrt_r(x) == x { admit(); }
pub proof fn ax_sin_cos(x: real) ensures sin_r(x) * sin_r(x) + cos_r(x) * cos_r(x) == 1real { admit(); }
pub proof fn ax_cosh_sinh(x: real) ensures cosh_r(x) * cosh_r(x) - sinh_r(x) * sinh_r(x) == 1real, cosh_r(x) > 0real { admit(); }
pub proof fn ax_powi_0(x: real) ensures powi_r(x, 0) == 1real { admit(); }
pub proof fn ax_powi_step(x: real, k: int) requires x != 0real || k >= 0 ensures powi_r(x, k + 1) == powi_r(x, k) * x { admit(); }
pub proof fn ax_powf_0(x: real) requires x > 0real ensures powf_r(x, 0real) == 1real { admit(); }
pub proof fn ax_powf_step(x: real, a: real) requires x > 0real ensures powf_r(x, a + 1real) == powf_r(x, a) * x, powf_r(x, a) > 0real { admit(); }
pub proof fn ax_powf_int(x: real, n: int) requires x > 0real ensures powf_r(x, n as real) == powi_r(x, n) { admit(); }
pub proof fn ax_exp_ln(x: real) requires x > 0real ensures exp_r(ln_r(x)) == x { admit(); }
pub proof fn ax_tan(x: real) requires cos_r(x) != 0real ensures tan_r(x) * cos_r(x) == sin_r(x) { admit(); }
pub proof fn ax_tanh(x: real) ensures tanh_r(x) * cosh_r(x) == sinh_r(x) { admit(); }
pub proof fn ax_expm1(x: real) ensures expm1_r(x) == exp_r(x) - 1real { admit(); }
pub proof fn ax_ln1p(x: real) requires x > -1real ensures ln1p_r(x) == ln_r(1real + x) { admit(); }
pub proof fn ax_sign(x: real) ensures x > 0real ==> is_positive_r(x) && !is_negative_r(x), x < 0real ==> is_negative_r(x) && !is_positive_r(x) { admit(); }
// float-grid fact used by the powf branch |n-2| < eps  (DESIGN.md §2.2)
pub proof fn ax_float_grid_two(n: real) requires abs_r(n - 2real) < eps_r() ensures n == 2real { admit(); }
""")
    return "".join(o)


if __name__ == "__main__":
    print(generate())


def generate_mx():
    """model of nalgebra::OMatrix<Sc, R, C> (static and dynamic storage alike): shape + total entry function;
    only the operations the crate uses; matrix products restricted to inner dimension 1"""
    o = []
    w = o.append
    w("""
// ===================== matrix model (assumed contracts on nalgebra; DESIGN.md §2.2) =====================
#[verifier::external_body] pub struct Mx { v: Vec<f64> }
#[verifier::external_body] pub struct Dm { v: usize }
impl View for Dm { type V = int; uninterp spec fn view(&self) -> int; }
pub uninterp spec fn dim_D() -> int;
pub uninterp spec fn dim_M() -> int;
pub uninterp spec fn dim_N() -> int;
impl Mx {
    pub uninterp spec fn nrows(&self) -> int;
    pub uninterp spec fn ncols(&self) -> int;
    pub uninterp spec fn at(&self, i: int, j: int) -> real;
    pub open spec fn same_shape(&self, o: &Mx) -> bool { self.nrows() == o.nrows() && self.ncols() == o.ncols() }
    #[verifier::external_body] pub fn zeros_generic(r: Dm, c: Dm) -> (m: Mx) ensures m.nrows() == r@, m.ncols() == c@, forall|i: int, j: int| #![trigger m.at(i, j)] m.at(i, j) == 0real { unimplemented!() }
    #[verifier::external_body] pub fn tr_mul(&self, r: &Mx) -> (m: Mx) requires self.nrows() == 1, r.nrows() == 1 ensures m.nrows() == self.ncols(), m.ncols() == r.ncols(), forall|i: int, j: int| #![trigger m.at(i, j)] m.at(i, j) == self.at(0, i) * r.at(0, j) { unimplemented!() }
}
impl Clone for Mx { #[verifier::external_body] fn clone(&self) -> (m: Mx) ensures m.same_shape(self), forall|i: int, j: int| #![trigger m.at(i, j)] m.at(i, j) == self.at(i, j) { unimplemented!() } }
""")

    def op(tr, lhs, rhs, req, ens, lts=""):
        m = tr.lower()
        w(spec_ops2(tr, lhs, rhs, "Mx", req, lts))
        targ = f"<{rhs}>" if rhs else ""
        params = f"self, rhs: {rhs}" if rhs else "self"
        w(f"impl{lts} core::ops::{tr}{targ} for {lhs} {{ type Output = Mx; #[verifier::external_body] fn {m}({params}) -> (m: Mx) ensures {ens} {{ unimplemented!() }} }}\n")

    E = "forall|i: int, j: int| #![trigger m.at(i, j)] m.at(i, j) == "
    for lhs, lts in [("Mx", ""), ("&'a Mx", "<'a>")]:
        op("Mul", lhs, "Sc", "true", "m.same_shape(&self), " + E + "self.at(i, j) * rhs@", lts)
        op("Div", lhs, "Sc", "rhs@ != 0real", "m.same_shape(&self), " + E + "rdiv(self.at(i, j), rhs@)", lts)
        op("Neg", lhs, "", "true", "m.same_shape(&self), " + E + "-self.at(i, j)", lts)
    op("Mul", "&'a Mx", "&'b Mx", "self.ncols() == 1 && rhs.nrows() == 1", "m.nrows() == self.nrows(), m.ncols() == rhs.ncols(), " + E + "self.at(i, 0) * rhs.at(0, j)", "<'a, 'b>")
    for tr, sym in [("Add", "+"), ("Sub", "-")]:
        op(tr, "Mx", "Mx", "self.same_shape(&rhs)", "m.same_shape(&self), " + E + f"self.at(i, j) {sym} rhs.at(i, j)")
        op(tr, "&'a Mx", "&'b Mx", "self.same_shape(rhs)", "m.same_shape(self), " + E + f"self.at(i, j) {sym} rhs.at(i, j)", "<'a, 'b>")
    EF = "forall|i: int, j: int| #![trigger final(self).at(i, j)] final(self).at(i, j) == "

    def expr(sym, rv):
        return f"rdiv(old(self).at(i, j), {rv})" if sym == "rdiv" else f"old(self).at(i, j) {sym} {rv}"

    for tr, m, rhs, req, sym, rv in [("AddAssign", "add_assign", "&'a Mx", "self.same_shape(rhs)", "+", "rhs.at(i, j)"),
                                     ("SubAssign", "sub_assign", "&'a Mx", "self.same_shape(rhs)", "-", "rhs.at(i, j)"),
                                     ("MulAssign", "mul_assign", "Sc", "true", "*", "rhs@"),
                                     ("DivAssign", "div_assign", "Sc", "rhs@ != 0real", "rdiv", "rhs@")]:
        lts = "<'a>" if "'a" in rhs else ""
        w(spec_ops2(tr, "Mx", rhs, "Mx", req, lts))
        w(f"impl{lts} core::ops::{tr}<{rhs}> for Mx {{ #[verifier::external_body] fn {m}(&mut self, rhs: {rhs}) ensures final(self).same_shape(old(self)), {EF}{expr(sym, rv)} {{ unimplemented!() }} }}\n")
    w("""
impl Derivative {
    pub open spec fn dense(&self, i: int, j: int) -> real { match self.0 { Some(m) => m.at(i, j), None => 0real } }
    pub open spec fn present(&self) -> bool { self.0.is_some() }
    pub open spec fn nr(&self) -> int { match self.0 { Some(m) => m.nrows(), None => 0 } }
    pub open spec fn nc(&self) -> int { match self.0 { Some(m) => m.ncols(), None => 0 } }
    pub open spec fn shape_eq(&self, o: &Derivative) -> bool { self.nr() == o.nr() && self.nc() == o.nc() }
    pub open spec fn rows_are(&self, r: int) -> bool { match self.0 { Some(m) => m.nrows() == r, None => true } }
    pub open spec fn cols_are(&self, c: int) -> bool { match self.0 { Some(m) => m.ncols() == c, None => true } }
    pub open spec fn fits(&self, r: int, c: int) -> bool { self.rows_are(r) && self.cols_are(c) }
    pub open spec fn compat(&self, o: &Derivative) -> bool { match (self.0, o.0) { (Some(a), Some(b)) => a.same_shape(&b), _ => true } }
}
""")
    return "".join(o)


def spec_ops2(tr, lhs, rhs, out, req, lts):
    sn = {"Add": "add", "Sub": "sub", "Mul": "mul", "Div": "div", "Neg": "neg",
          "AddAssign": "add_assign", "SubAssign": "sub_assign", "MulAssign": "mul_assign", "DivAssign": "div_assign"}[tr]
    targ = f"<{rhs}>" if rhs else ""
    slf = "&self" if tr.endswith("Assign") else "self"
    params = f"{slf}, rhs: {rhs}" if rhs else slf
    amp = "&" if tr.endswith("Assign") else ""
    return (f"impl{lts} vstd::std_specs::ops::{tr}SpecImpl{targ} for {lhs} {{ open spec fn obeys_{sn}_spec() -> bool {{ false }} "
            f"open spec fn {sn}_req({params}) -> bool {{ {req} }} open spec fn {sn}_spec({params}) -> {amp}{out} {{ arbitrary() }} }}\n")


FP_STD = ["recip", "sqrt", "cbrt", "exp", "exp2", "exp_m1", "ln", "log2", "log10", "ln_1p", "sin", "cos", "tan", "asin", "acos", "atan",
          "sinh", "cosh", "tanh", "asinh", "acosh", "atanh"]


def generate_fp():
    """model of the primitive float type for the plain-float instance of the interface (unit F64):
    the std functions are total; each returns 'the' real function (machine arithmetic treated as mathematical)"""
    o = []
    w = o.append
    w("\n// ===================== primitive float model Fp (unit F64) =====================\n")
    w("#[verifier::external_body] pub struct Fp { v: f64 }\n")
    w("impl View for Fp { type V = real; uninterp spec fn view(&self) -> real; }\n")
    w("impl Clone for Fp { #[verifier::external_body] fn clone(&self) -> (r: Fp) ensures r@ == self@ { unimplemented!() } }\nimpl Copy for Fp {}\n")
    for tr, sym in [("Add", "+"), ("Sub", "-"), ("Mul", "*"), ("Div", "/")]:
        m = tr.lower()
        req = "rhs@ != 0real" if tr == "Div" else "true"
        for lhs, rhs, lts in [("Fp", "Fp", ""), ("Fp", "&'a Fp", "<'a>"), ("&'a Fp", "Fp", "<'a>"), ("&'a Fp", "&'b Fp", "<'a, 'b>")]:
            w(spec_ops2(tr, lhs, rhs, "Fp", req, lts))
            w(f"impl{lts} core::ops::{tr}<{rhs}> for {lhs} {{ type Output = Fp; #[verifier::external_body] fn {m}(self, rhs: {rhs}) -> (r: Fp) ensures r@ == self@ {sym} rhs@ {{ unimplemented!() }} }}\n")
    w(spec_ops2("Neg", "Fp", "", "Fp", "true", ""))
    w("impl core::ops::Neg for Fp { type Output = Fp; #[verifier::external_body] fn neg(self) -> (r: Fp) ensures r@ == -self@ { unimplemented!() } }\n")
    w("""
impl PartialEq for Fp { #[verifier::external_body] fn eq(&self, o: &Fp) -> (r: bool) ensures r == (self@ == o@) { unimplemented!() } }
impl PartialOrd for Fp {
    #[verifier::external_body] fn partial_cmp(&self, o: &Fp) -> (r: Option<core::cmp::Ordering>) { unimplemented!() }
    #[verifier::external_body] fn lt(&self, o: &Fp) -> (r: bool) ensures r == (self@ < o@) { unimplemented!() }
    #[verifier::external_body] fn le(&self, o: &Fp) -> (r: bool) ensures r == (self@ <= o@) { unimplemented!() }
    #[verifier::external_body] fn gt(&self, o: &Fp) -> (r: bool) ensures r == (self@ > o@) { unimplemented!() }
    #[verifier::external_body] fn ge(&self, o: &Fp) -> (r: bool) ensures r == (self@ >= o@) { unimplemented!() }
}
""")
    w("impl Fp {\n")
    w("  #[verifier::external_body] pub fn lit(Ghost(x): Ghost<real>) -> (r: Fp) ensures r@ == x { unimplemented!() }\n")
    w("  #[verifier::external_body] pub fn epsilon() -> (r: Fp) ensures r@ == eps_r(), r@ > 0real { unimplemented!() }\n")
    w("  #[verifier::external_body] pub fn abs(self) -> (r: Fp) ensures r@ == abs_r(self@) { unimplemented!() }\n")
    rname = {"exp_m1": "expm1", "ln_1p": "ln1p"}
    for m in FP_STD:
        w(f"  #[verifier::external_body] pub fn std_{m}(x: Fp) -> (r: Fp) ensures r@ == {rname.get(m, m)}_r(x@) {{ unimplemented!() }}\n")
    w("  #[verifier::external_body] pub fn std_sin_cos(x: Fp) -> (r: (Fp, Fp)) ensures r.0@ == sin_r(x@), r.1@ == cos_r(x@) { unimplemented!() }\n")
    w("  #[verifier::external_body] pub fn std_mul_add(x: Fp, a: Fp, b: Fp) -> (r: Fp) ensures r@ == (x@ * a@) + b@ { unimplemented!() }\n")
    w("  #[verifier::external_body] pub fn std_powi(x: Fp, n: i32) -> (r: Fp) ensures r@ == powi_r(x@, n as int) { unimplemented!() }\n")
    w("  #[verifier::external_body] pub fn std_powf(x: Fp, n: Fp) -> (r: Fp) ensures r@ == powf_r(x@, n@) { unimplemented!() }\n")
    w("  #[verifier::external_body] pub fn std_log(x: Fp, b: Fp) -> (r: Fp) ensures r@ == log_r(x@, b@) { unimplemented!() }\n")
    w("  #[verifier::external_body] pub fn std_atan2(x: Fp, o: Fp) -> (r: Fp) ensures r@ == atan2_r(x@, o@) { unimplemented!() }\n")
    w("}\n")
    return "".join(o)


def generate_fmt(with_deriv):
    """model of core::fmt::Formatter for rule R6: a ghost trace of output pieces.  Literal text of format strings is
    traced byte by byte (so the trace does not depend on how text is split over write! calls); `&str` arguments (the part symbols,
    the join separator) are identified by the FNV-1a 64 hash of their bytes; float printing itself is outside the model."""
    part = "Joined(Mx, u64), Mat(Mx), " if with_deriv else ""
    s = f"""
// ===================== formatter model (C18, rule R6) =====================
pub enum Piece {{ Ch(u8), Sym(u64), Val(real), {part}}}
#[verifier::external_body] pub struct Fmt {{ v: u8 }}
pub struct FmtResult {{ pub ok: bool }}
pub fn fmt_ok() -> (r: FmtResult) {{ FmtResult {{ ok: true }} }}
// what `{{}}` prints for a value of the type: one piece of the trace
pub trait Shown {{ spec fn piece(&self) -> Piece; }}
impl Shown for Sc {{ open spec fn piece(&self) -> Piece {{ Piece::Val(self@) }} }}
impl<'a, T: Shown> Shown for &'a T {{ open spec fn piece(&self) -> Piece {{ (**self).piece() }} }}
impl Shown for u64 {{ open spec fn piece(&self) -> Piece {{ Piece::Sym(*self) }} }}
impl Fmt {{
    pub uninterp spec fn trace(&self) -> Seq<Piece>;
    #[verifier::external_body] pub fn ch(&mut self, b: u8) ensures final(self).trace() == old(self).trace().push(Piece::Ch(b)) {{ unimplemented!() }}
    #[verifier::external_body] pub fn disp<T: Shown>(&mut self, x: &T) ensures final(self).trace() == old(self).trace().push(x.piece()) {{ unimplemented!() }}
}}
"""
    if with_deriv:
        s += """
// assumed contracts on nalgebra / alloc used by Derivative::fmt (rule R11): shape(), linear indexing (column-major storage),
// iter().map(T::to_string).collect() yields every entry in storage order, [String]::join, Display of a matrix
#[verifier::external_body] pub struct Strs { v: u8 }
#[verifier::external_body] pub struct Joined { v: u8 }
impl Strs {
    pub uninterp spec fn src(&self) -> Mx;
    #[verifier::external_body] pub fn join(&self, sep: u64) -> (r: Joined) ensures r.src() == self.src(), r.sep() == sep { unimplemented!() }
}
impl Joined { pub uninterp spec fn src(&self) -> Mx; pub uninterp spec fn sep(&self) -> u64; }
impl Shown for Joined { open spec fn piece(&self) -> Piece { Piece::Joined(self.src(), self.sep()) } }
impl Shown for Mx { open spec fn piece(&self) -> Piece { Piece::Mat(*self) } }
impl Mx {
    #[verifier::external_body] pub fn shape(&self) -> (r: (usize, usize)) ensures r.0 == self.nrows(), r.1 == self.ncols() { unimplemented!() }
    #[verifier::external_body] pub fn lin_ref(&self, k: usize) -> (r: &Sc) requires k < self.nrows() * self.ncols() ensures r@ == self.at(k as int % self.nrows(), k as int / self.nrows()) { unimplemented!() }
    #[verifier::external_body] pub fn to_strings(&self) -> (r: Strs) ensures r.src() == *self { unimplemented!() }
    #[verifier::external_body] pub fn all_zero(&self) -> (r: bool) ensures r == (forall|i: int, j: int| #![trigger self.at(i, j)] self.at(i, j) == 0real) { unimplemented!() }
    #[verifier::external_body] pub fn column(&self, j: usize) -> (r: Mx) requires j < self.ncols() ensures r.nrows() == self.nrows(), r.ncols() == 1, forall|i: int| #![trigger r.at(i, 0)] r.at(i, 0) == self.at(i, j as int) { unimplemented!() }
    #[verifier::external_body] pub fn row(&self, i: usize) -> (r: Mx) requires i < self.nrows() ensures r.nrows() == 1, r.ncols() == self.ncols(), forall|j: int| #![trigger r.at(0, j)] r.at(0, j) == self.at(i as int, j) { unimplemented!() }
}
pub open spec fn mx_trace(t: Seq<Piece>, m: Mx) -> Seq<Piece> {
    if m.nrows() == 1 && m.ncols() == 1 { t.push(Piece::Val(m.at(0, 0))) }
    else if m.nrows() == 1 || m.ncols() == 1 { t.push(Piece::Ch(91u8)).push(Piece::Joined(m, LIT_SEP)).push(Piece::Ch(93u8)) }
    else { t.push(Piece::Mat(m)) }
}
pub open spec fn part_trace(t: Seq<Piece>, d: Derivative, sym: u64) -> Seq<Piece> {
    match d.0 { Some(m) => mx_trace(t.push(Piece::Ch(32u8)).push(Piece::Ch(43u8)).push(Piece::Ch(32u8)), m).push(Piece::Sym(sym)), None => t }
}
""".replace("LIT_SEP", "%du64" % fnv(", "))
    return s


def fnv(text):
    h = 0xcbf29ce484222325
    for b in text.encode():
        h = ((h ^ b) * 0x100000001b3) & 0xFFFFFFFFFFFFFFFF
    return h


PY_UNARY = ["recip", "sqrt", "cbrt", "exp", "exp2", "exp_m1", "ln", "log2", "log10", "ln_1p", "sin", "cos", "tan", "asin", "acos", "atan",
            "sinh", "cosh", "tanh", "asinh", "acosh", "atanh", "sph_j0", "sph_j1", "sph_j2", "neg"]


def generate_py():
    """abstract wrapped number `Inner` for the Python wrapper unit (C17): every Rust operation is an uninterpreted function;
    the wrapper contracts say which one a Python method forwards to, with which operands in which order"""
    o = []
    w = o.append
    w("\n// ===================== wrapped-number model for the Python wrapper unit (C17) =====================\n")
    w("#[verifier::external_body] pub struct Inner { v: u8 }\npub struct PyErr { pub v: u8 }\npub type PyResult<T> = Result<T, PyErr>;\n")
    for f in PY_UNARY:
        w(f"pub uninterp spec fn i_{f}(x: Inner) -> Inner;\n")
    w("pub uninterp spec fn i_powi(x: Inner, n: int) -> Inner;\npub uninterp spec fn i_powf(x: Inner, n: real) -> Inner;\npub uninterp spec fn i_powd(x: Inner, n: Inner) -> Inner;\n")
    w("pub uninterp spec fn i_log(x: Inner, b: real) -> Inner;\npub uninterp spec fn i_mul_add(x: Inner, a: Inner, b: Inner) -> Inner;\npub uninterp spec fn i_from_re(r: real) -> Inner;\n")
    w("pub uninterp spec fn i_add_f(x: Inner, f: real) -> Inner;\npub uninterp spec fn i_mul_f(x: Inner, f: real) -> Inner;\npub uninterp spec fn i_to_string(x: Inner) -> Seq<char>;\n")
    w("impl Clone for Inner { #[verifier::external_body] fn clone(&self) -> (r: Inner) ensures r == *self { unimplemented!() } }\n")
    w("impl Inner {\n")
    for f in PY_UNARY:
        if f == "neg":
            continue
        w(f"  #[verifier::external_body] pub fn {f}(&self) -> (r: Inner) ensures r == i_{f}(*self) {{ unimplemented!() }}\n")
    w("  #[verifier::external_body] pub fn sin_cos(&self) -> (r: (Inner, Inner)) ensures r.0 == i_sin(*self), r.1 == i_cos(*self) { unimplemented!() }\n")
    w("  #[verifier::external_body] pub fn powi(&self, n: i32) -> (r: Inner) ensures r == i_powi(*self, n as int) { unimplemented!() }\n")
    w("  #[verifier::external_body] pub fn powf(&self, n: Fl) -> (r: Inner) ensures r == i_powf(*self, n@) { unimplemented!() }\n")
    w("  #[verifier::external_body] pub fn powd(&self, n: Inner) -> (r: Inner) ensures r == i_powd(*self, n) { unimplemented!() }\n")
    w("  #[verifier::external_body] pub fn log(&self, b: Fl) -> (r: Inner) ensures r == i_log(*self, b@) { unimplemented!() }\n")
    w("  #[verifier::external_body] pub fn mul_add(&self, a: Inner, b: Inner) -> (r: Inner) ensures r == i_mul_add(*self, a, b) { unimplemented!() }\n")
    w("  #[verifier::external_body] pub fn from_re(re: Fl) -> (r: Inner) ensures r == i_from_re(re@) { unimplemented!() }\n")
    w("  #[verifier::external_body] pub fn to_string(&self) -> (r: String) ensures r@ == i_to_string(*self) { unimplemented!() }\n")
    w("}\n")
    for tr, m, fn_ in [("Add", "add", "i_add_f"), ("Mul", "mul", "i_mul_f")]:
        w(spec_ops2(tr, "Inner", "Fl", "Inner", "true", ""))
        w(f"impl core::ops::{tr}<Fl> for Inner {{ type Output = Inner; #[verifier::external_body] fn {m}(self, rhs: Fl) -> (r: Inner) ensures r == {fn_}(self, rhs@) {{ unimplemented!() }} }}\n")
    w(spec_ops2("Neg", "Inner", "", "Inner", "true", ""))
    w("impl core::ops::Neg for Inner { type Output = Inner; #[verifier::external_body] fn neg(self) -> (r: Inner) ensures r == i_neg(self) { unimplemented!() } }\n")
    return "".join(o)
