"""Static specification-level lemmas (no code involved):
  * validation of the derivative tables against the defining equation of each function in the jet algebra
    J3 / J2 (DESIGN.md §3.2): second and third derivatives are consequences Z3 must derive
  * embedding (homomorphism) lemmas between the jet algebras (C04): Dual2 -> HyperDual, Dual3 -> HyperHyperDual,
    first-order restriction of HyperDual = Dual
  * agreement of the power tables (C09)
  * structural induction over a program datatype: the embedding commutes with evaluation of every program (C03/C04)
"""
from lemmas import TABLES, Lemma, reals
from speclib import SHAPES


def j3mul(A, B):
    return [f"j3_mul_{p}({', '.join(A)}, {', '.join(B)})" for p in SHAPES["j3"]]


def j2mul(A, B):
    return [f"j2_mul_{p}({', '.join(A)}, {', '.join(B)})" for p in SHAPES["j2"]]


def tab(name):
    t = TABLES[name]
    lets = "".join(f"let {n} = {e}; " for n, e in t["atoms"])
    return lets, ["(" + g + ")" for g in t["g"]]


def wrap(lets, e):
    return "({ " + lets + e + " })"


def validation_lemmas():
    out = []
    X3 = ["x", "1real", "0real", "0real"]
    X2 = ["x", "1real", "0real"]

    def V(name, req, ens, what, params="x: real"):
        out.append(Lemma(f"val_{name}", params, req, ens, ["C01", "C03"], what))

    # recip: Y (x) X == 1
    l, g = tab("recip")
    V("recip", ["x * recip_r(x) == 1real"], [wrap(l, f"{e} == {c}") for e, c in zip(j3mul(g, X3), ["1real", "0real", "0real", "0real"])],
      "recip table: Y (x) X == 1 in J3")
    l, g = tab("sqrt")
    V("sqrt", ["x * recip_r(x) == 1real", "sqrt_r(x) * sqrt_r(x) == x"], [wrap(l, f"{e} == {c}") for e, c in zip(j3mul(g, g), X3)],
      "sqrt table: Y (x) Y == X in J3")
    l, g = tab("cbrt")
    yy = j3mul(g, g)
    V("cbrt", ["x * recip_r(x) == 1real", "cbrt_r(x) * cbrt_r(x) * cbrt_r(x) == x"], [wrap(l, f"{e} == {c}") for e, c in zip(j3mul(yy, g), X3)],
      "cbrt table: Y (x) Y (x) Y == X in J3 (all x != 0, both signs)")
    l, g = tab("exp")
    V("exp", [], [wrap(l, f"{g[k + 1]} == {g[k]}") for k in range(3)], "exp table: dY == Y")
    l, g = tab("exp2")
    V("exp2", [], [wrap(l, f"{g[k + 1]} == l * {g[k]}") for k in range(3)], "exp2 table: dY == ln2 * Y")
    l, g = tab("exp_m1")
    V("exp_m1", ["expm1_r(x) == exp_r(x) - 1real"], [wrap(l, f"{g[1]} == {g[0]} + 1real"), wrap(l, f"{g[2]} == {g[1]}"), wrap(l, f"{g[3]} == {g[2]}")],
      "exp_m1 table: dY == Y + 1")
    for nm, rhs0, xs, req, extra in [("ln", "1real", X2, ["x * recip_r(x) == 1real"], ""),
                                     ("log", "1real / ln_r(base)", X2, ["x * recip_r(x) == 1real", "ln_r(base) != 0real"], ", base: real"),
                                     ("log2", "1real / ln_r(2real)", X2, ["x * recip_r(x) == 1real", "ln_r(2real) != 0real"], ""),
                                     ("log10", "1real / ln_r(10real)", X2, ["x * recip_r(x) == 1real", "ln_r(10real) != 0real"], ""),
                                     ("ln_1p", "1real", ["(x + 1real)", "1real", "0real"], ["(x + 1real) * recip_r(x + 1real) == 1real"], "")]:
        l, g = tab(nm)
        V(nm, req, [wrap(l, f"{e} == {c}") for e, c in zip(j2mul(g[1:], xs), [rhs0, "0real", "0real"])],
          f"{nm} table: dY (x) X == const in J2", params="x: real" + extra)
    ls, gs = tab("sin")
    lc, gc = tab("cos")
    V("sin_cos", [], [wrap(ls, f"{gs[k + 1]} == {gc[k]}") for k in range(3)] + [wrap(ls, f"{gc[k + 1]} == -{gs[k]}") for k in range(3)], "sin/cos tables: dS == C, dC == -S")
    ls, gs = tab("sinh")
    lc, gc = tab("cosh")
    V("sinh_cosh", [], [wrap(ls, f"{gs[k + 1]} == {gc[k]}") for k in range(3)] + [wrap(ls, f"{gc[k + 1]} == {gs[k]}") for k in range(3)], "sinh/cosh tables: dS == C, dC == S")
    # inverse trig / hyperbolic:  W = dY ;  W (x) W (x) (1 -+ X (x) X) == 1   resp.  dY (x) (1 +- X (x) X) == 1
    XX = j2mul(X2, X2)
    one_minus = [f"(1real - {XX[0]})", f"(-{XX[1]})", f"(-{XX[2]})"]
    one_plus = [f"(1real + {XX[0]})", f"({XX[1]})", f"({XX[2]})"]
    xx_minus1 = [f"({XX[0]} - 1real)", f"({XX[1]})", f"({XX[2]})"]
    for nm, fac, sign, hy in [("asin", one_minus, "", "(1real - x * x) * recip_r(1real - x * x) == 1real"),
                              ("acos", one_minus, "-", "(1real - x * x) * recip_r(1real - x * x) == 1real"),
                              ("asinh", one_plus, "", "(1real + x * x) * recip_r(1real + x * x) == 1real"),
                              ("acosh", xx_minus1, "", "(x * x - 1real) * recip_r(x * x - 1real) == 1real")]:
        l, g = tab(nm)
        W = [f"({sign}{t})" for t in g[1:]]
        WW = j2mul(W, W)
        arg = {"asin": "1real - x * x", "acos": "1real - x * x", "asinh": "1real + x * x", "acosh": "x * x - 1real"}[nm]
        V(nm, [hy, f"sqrt_r(recip_r({arg})) * sqrt_r(recip_r({arg})) == recip_r({arg})"],
          [wrap(l, f"{e} == {c}") for e, c in zip(j2mul(WW, fac), ["1real", "0real", "0real"])], f"{nm} table: W = +-dY satisfies W (x) W (x) (..) == 1 in J2")
    for nm, fac, hy in [("atan", one_plus, "(1real + x * x) * recip_r(1real + x * x) == 1real"), ("atanh", one_minus, "(1real - x * x) * recip_r(1real - x * x) == 1real")]:
        l, g = tab(nm)
        V(nm, [hy], [wrap(l, f"{e} == {c}") for e, c in zip(j2mul(g[1:], fac), ["1real", "0real", "0real"])], f"{nm} table: dY (x) (1 +- X (x) X) == 1 in J2")
    # powers: dY (x) X == n * Y (x) dX  with dX = (1, 0, 0)
    for nm, nreal, P, params in [("powi", "(n as real)", lambda k: f"powi_r(x, n - {k})", "x: real, n: int"),
                                 ("powf", "n", lambda k: f"powf_r(x, n - {k}real)", "x: real, n: real")]:
        g = [P(0), f"{nreal} * {P(1)}", f"{nreal} * ({nreal} - 1real) * {P(2)}", f"{nreal} * ({nreal} - 1real) * ({nreal} - 2real) * {P(3)}"]
        g = ["(" + t + ")" for t in g]
        hy = [f"{P(0)} == {P(1)} * x", f"{P(1)} == {P(2)} * x", f"{P(2)} == {P(3)} * x"]
        lhs = j2mul(g[1:], X2)
        V(nm, hy, [f"{lhs[k]} == {nreal} * {g[k]}" for k in range(3)], f"{nm} table: dY (x) X == n * Y (generalized power rule)", params=params)
    return out


def embedding_lemmas():
    out = []

    def E(name, params, ens, what, prop=("C04", "C03")):
        out.append(Lemma(f"emb_{name}", reals(params), [], ens, list(prop), what))

    # Dual2 -> HyperDual : (x0, x1, x2) |-> (x0, x1, x1, x2)
    A, B = ["a0", "a1", "a2"], ["b0", "b1", "b2"]
    eA, eB = ["a0", "a1", "a1", "a2"], ["b0", "b1", "b1", "b2"]
    j = [f"j2_mul_{p}({', '.join(A + B)})" for p in SHAPES["j2"]]
    h = [f"hd_mul_{p}({', '.join(eA + eB)})" for p in SHAPES["hd"]]
    E("j2_hd_mul", A + B, [f"{h[0]} == {j[0]}", f"{h[1]} == {j[1]}", f"{h[2]} == {j[1]}", f"{h[3]} == {j[2]}"],
      "Dual2 embeds into HyperDual (both directions on the same variable): products agree")
    Gs = ["g0", "g1", "g2"]
    j = [f"j2_lift_{p}({', '.join(A + Gs)})" for p in SHAPES["j2"]]
    h = [f"hd_lift_{p}({', '.join(eA + Gs)})" for p in SHAPES["hd"]]
    E("j2_hd_lift", A + Gs, [f"{h[0]} == {j[0]}", f"{h[1]} == {j[1]}", f"{h[2]} == {j[1]}", f"{h[3]} == {j[2]}"], "Dual2 -> HyperDual: chain rules agree")
    # Dual3 -> HyperHyperDual
    A, B = ["a0", "a1", "a2", "a3"], ["b0", "b1", "b2", "b3"]
    emb = lambda v: [v[0], v[1], v[1], v[1], v[2], v[2], v[2], v[3]]  # noqa: E731
    j = [f"j3_mul_{p}({', '.join(A + B)})" for p in SHAPES["j3"]]
    h = [f"hhd_mul_{p}({', '.join(emb(A) + emb(B))})" for p in SHAPES["hhd"]]
    E("j3_hhd_mul", A + B, [f"{h[i]} == {e}" for i, e in enumerate(emb(j))], "Dual3 embeds into HyperHyperDual (all three directions on the same variable): products agree")
    Gs = ["g0", "g1", "g2", "g3"]
    j = [f"j3_lift_{p}({', '.join(A + Gs)})" for p in SHAPES["j3"]]
    h = [f"hhd_lift_{p}({', '.join(emb(A) + Gs)})" for p in SHAPES["hhd"]]
    E("j3_hhd_lift", A + Gs, [f"{h[i]} == {e}" for i, e in enumerate(emb(j))], "Dual3 -> HyperHyperDual: chain rules agree")
    # first-order restriction: HyperDual with second direction unseeded = Dual ; Dual2 truncated = Dual
    A, B = ["a0", "a1"], ["b0", "b1"]
    hA, hB = ["a0", "a1", "0real", "0real"], ["b0", "b1", "0real", "0real"]
    E("d_hd_mul", A + B, [f"hd_mul_re({', '.join(hA + hB)}) == d_mul_re({', '.join(A + B)})", f"hd_mul_eps1({', '.join(hA + hB)}) == d_mul_eps({', '.join(A + B)})",
                          f"hd_mul_eps2({', '.join(hA + hB)}) == 0real", f"hd_mul_eps1eps2({', '.join(hA + hB)}) == 0real"],
      "a vector type seeded in one direction agrees component-wise with the scalar first-order type (product)")
    E("d_hd_lift", A + ["g0", "g1", "g2"], [f"hd_lift_re({', '.join(hA)}, g0, g1, g2) == d_lift_re({', '.join(A)}, g0, g1)", f"hd_lift_eps1({', '.join(hA)}, g0, g1, g2) == d_lift_eps({', '.join(A)}, g0, g1)",
                                           f"hd_lift_eps2({', '.join(hA)}, g0, g1, g2) == 0real", f"hd_lift_eps1eps2({', '.join(hA)}, g0, g1, g2) == 0real"],
      "one-direction seeding: chain rules agree with the first-order type")
    # Dual3 truncates to Dual2 truncates to Dual
    A3, B3 = ["a0", "a1", "a2", "a3"], ["b0", "b1", "b2", "b3"]
    E("j3_j2_mul", A3 + B3, [f"j3_mul_{p}({', '.join(A3 + B3)}) == j2_mul_{p}({', '.join(A3[:3] + B3[:3])})" for p in SHAPES["j2"]], "third-order type agrees with the second-order type on lower parts")
    # HyperHyperDual restricted to two directions = HyperDual
    A = [f"a_{p}" for p in SHAPES["hd"]]
    B = [f"b_{p}" for p in SHAPES["hd"]]
    z4 = ["0real"] * 4
    hhA = [A[0], A[1], A[2], "0real", A[3], "0real", "0real", "0real"]
    hhB = [B[0], B[1], B[2], "0real", B[3], "0real", "0real", "0real"]
    E("hd_hhd_mul", A + B, [f"hhd_mul_{p}({', '.join(hhA + hhB)}) == hd_mul_{p}({', '.join(A + B)})" for p in SHAPES["hd"]] +
      [f"hhd_mul_{p}({', '.join(hhA + hhB)}) == 0real" for p in ["eps3", "eps1eps3", "eps2eps3", "eps1eps2eps3"]],
      "HyperHyperDual with the third direction unseeded agrees with HyperDual")
    _ = z4
    return out


def power_lemmas():
    out = []
    nr = "(n as real)"
    gi = ["powi_r(x, n - 0)", f"{nr} * powi_r(x, n - 1)", f"{nr} * ({nr} - 1real) * powi_r(x, n - 2)", f"{nr} * ({nr} - 1real) * ({nr} - 2real) * powi_r(x, n - 3)"]
    gf = [f"powf_r(x, {nr} - 0real)", f"{nr} * powf_r(x, {nr} - 1real)", f"{nr} * ({nr} - 1real) * powf_r(x, {nr} - 2real)", f"{nr} * ({nr} - 1real) * ({nr} - 2real) * powf_r(x, {nr} - 3real)"]
    hy = [f"powf_r(x, {nr} - {k}real) == powi_r(x, n - {k})" for k in range(4)]
    out.append(Lemma("pow_tables_agree", "x: real, n: int", hy, [f"{a} == {b}" for a, b in zip(gi, gf)], ["C09"],
                     "powi(n) and powf(n as real) have the same derivative table on x > 0 (given powf_r(x, k) == powi_r(x, k) for integer k)"))
    # powi(-1) table == recip table ; powf(1/2) table = sqrt table (first derivative)
    out.append(Lemma("powi_m1_is_recip", "x: real", ["powi_r(x, -1) == recip_r(x)", "powi_r(x, -2) == recip_r(x) * recip_r(x)", "powi_r(x, -3) == recip_r(x) * recip_r(x) * recip_r(x)",
                                                     "powi_r(x, -4) == recip_r(x) * recip_r(x) * recip_r(x) * recip_r(x)"],
                     ["({ let r = recip_r(x); powi_r(x, -1) == r && (-1real) * powi_r(x, -2) == -(r * r) && (-1real) * (-2real) * powi_r(x, -3) == 2real * r * r * r && (-1real) * (-2real) * (-3real) * powi_r(x, -4) == -(6real * r * r * r * r) })"],
                     ["C09", "C02"], "powi(-1) has the reciprocal's derivative table"))
    return out


PROG = r'''
// ===================== C03 / C04: the embedding commutes with every program (structural induction) =====================
pub uninterp spec fn tabf(g: int, k: int, x: real) -> real;   // k-th derivative of the g-th elementary function

pub enum Prog {
    Var(int),
    Const(real),
    Add(Box<Prog>, Box<Prog>),
    Sub(Box<Prog>, Box<Prog>),
    Neg(Box<Prog>),
    Mul(Box<Prog>, Box<Prog>),
    Elem(int, Box<Prog>),
}

pub struct J2 { pub v0: real, pub v1: real, pub v2: real }
pub struct HD { pub re: real, pub e1: real, pub e2: real, pub e12: real }

pub open spec fn embed(a: J2) -> HD { HD { re: a.v0, e1: a.v1, e2: a.v1, e12: a.v2 } }

pub open spec fn j2_mul(a: J2, b: J2) -> J2 {
    J2 { v0: j2_mul_re(a.v0, a.v1, a.v2, b.v0, b.v1, b.v2), v1: j2_mul_v1(a.v0, a.v1, a.v2, b.v0, b.v1, b.v2), v2: j2_mul_v2(a.v0, a.v1, a.v2, b.v0, b.v1, b.v2) }
}
pub open spec fn hd_mul(a: HD, b: HD) -> HD {
    HD { re: hd_mul_re(a.re, a.e1, a.e2, a.e12, b.re, b.e1, b.e2, b.e12), e1: hd_mul_eps1(a.re, a.e1, a.e2, a.e12, b.re, b.e1, b.e2, b.e12),
         e2: hd_mul_eps2(a.re, a.e1, a.e2, a.e12, b.re, b.e1, b.e2, b.e12), e12: hd_mul_eps1eps2(a.re, a.e1, a.e2, a.e12, b.re, b.e1, b.e2, b.e12) }
}
pub open spec fn j2_lift(x: J2, g: int) -> J2 {
    J2 { v0: j2_lift_re(x.v0, x.v1, x.v2, tabf(g, 0, x.v0), tabf(g, 1, x.v0), tabf(g, 2, x.v0)),
         v1: j2_lift_v1(x.v0, x.v1, x.v2, tabf(g, 0, x.v0), tabf(g, 1, x.v0), tabf(g, 2, x.v0)),
         v2: j2_lift_v2(x.v0, x.v1, x.v2, tabf(g, 0, x.v0), tabf(g, 1, x.v0), tabf(g, 2, x.v0)) }
}
pub open spec fn hd_lift(x: HD, g: int) -> HD {
    HD { re: hd_lift_re(x.re, x.e1, x.e2, x.e12, tabf(g, 0, x.re), tabf(g, 1, x.re), tabf(g, 2, x.re)),
         e1: hd_lift_eps1(x.re, x.e1, x.e2, x.e12, tabf(g, 0, x.re), tabf(g, 1, x.re), tabf(g, 2, x.re)),
         e2: hd_lift_eps2(x.re, x.e1, x.e2, x.e12, tabf(g, 0, x.re), tabf(g, 1, x.re), tabf(g, 2, x.re)),
         e12: hd_lift_eps1eps2(x.re, x.e1, x.e2, x.e12, tabf(g, 0, x.re), tabf(g, 1, x.re), tabf(g, 2, x.re)) }
}

pub open spec fn eval_j2(p: Prog, env: spec_fn(int) -> J2) -> J2
    decreases p
{
    match p {
        Prog::Var(k) => env(k),
        Prog::Const(c) => J2 { v0: c, v1: 0real, v2: 0real },
        Prog::Add(a, b) => { let (x, y) = (eval_j2(*a, env), eval_j2(*b, env)); J2 { v0: x.v0 + y.v0, v1: x.v1 + y.v1, v2: x.v2 + y.v2 } }
        Prog::Sub(a, b) => { let (x, y) = (eval_j2(*a, env), eval_j2(*b, env)); J2 { v0: x.v0 - y.v0, v1: x.v1 - y.v1, v2: x.v2 - y.v2 } }
        Prog::Neg(a) => { let x = eval_j2(*a, env); J2 { v0: -x.v0, v1: -x.v1, v2: -x.v2 } }
        Prog::Mul(a, b) => j2_mul(eval_j2(*a, env), eval_j2(*b, env)),
        Prog::Elem(g, a) => j2_lift(eval_j2(*a, env), g),
    }
}
pub open spec fn eval_hd(p: Prog, env: spec_fn(int) -> HD) -> HD
    decreases p
{
    match p {
        Prog::Var(k) => env(k),
        Prog::Const(c) => HD { re: c, e1: 0real, e2: 0real, e12: 0real },
        Prog::Add(a, b) => { let (x, y) = (eval_hd(*a, env), eval_hd(*b, env)); HD { re: x.re + y.re, e1: x.e1 + y.e1, e2: x.e2 + y.e2, e12: x.e12 + y.e12 } }
        Prog::Sub(a, b) => { let (x, y) = (eval_hd(*a, env), eval_hd(*b, env)); HD { re: x.re - y.re, e1: x.e1 - y.e1, e2: x.e2 - y.e2, e12: x.e12 - y.e12 } }
        Prog::Neg(a) => { let x = eval_hd(*a, env); HD { re: -x.re, e1: -x.e1, e2: -x.e2, e12: -x.e12 } }
        Prog::Mul(a, b) => hd_mul(eval_hd(*a, env), eval_hd(*b, env)),
        Prog::Elem(g, a) => hd_lift(eval_hd(*a, env), g),
    }
}

/// For every program built from the operations, evaluating over the second-order type and embedding equals
/// evaluating over the hyper-dual type with embedded inputs: the two types agree on every shared derivative.
pub proof fn lemma_hom(p: Prog, env: spec_fn(int) -> J2)
    ensures embed(eval_j2(p, env)) == eval_hd(p, |k: int| embed(env(k)))
    decreases p
{
    let henv = |k: int| embed(env(k));
    match p {
        Prog::Var(k) => {}
        Prog::Const(c) => {}
        Prog::Add(a, b) => { lemma_hom(*a, env); lemma_hom(*b, env); }
        Prog::Sub(a, b) => { lemma_hom(*a, env); lemma_hom(*b, env); }
        Prog::Neg(a) => { lemma_hom(*a, env); }
        Prog::Mul(a, b) => {
            lemma_hom(*a, env); lemma_hom(*b, env);
            let (x, y) = (eval_j2(*a, env), eval_j2(*b, env));
            nl::emb_j2_hd_mul(x.v0, x.v1, x.v2, y.v0, y.v1, y.v2);
        }
        Prog::Elem(g, a) => {
            lemma_hom(*a, env);
            let x = eval_j2(*a, env);
            nl::emb_j2_hd_lift(x.v0, x.v1, x.v2, tabf(g, 0, x.v0), tabf(g, 1, x.v0), tabf(g, 2, x.v0));
        }
    }
}
'''


def all_lemmas():
    return validation_lemmas() + embedding_lemmas() + power_lemmas()
