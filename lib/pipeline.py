"""Pipeline: expand -> extract -> assemble -> verus (root / nl / canary) -> classify.
See DESIGN.md §2.  Everything is regenerated from the repository working tree on every run."""
import hashlib
import json
import os
import re
import signal
import subprocess
import sys
import time
from concurrent.futures import ThreadPoolExecutor

VERIF = os.path.dirname(os.path.dirname(os.path.abspath(__file__)))
sys.path.insert(0, os.path.join(VERIF, "lib"))
import lemmas  # noqa: E402
import prelude  # noqa: E402
import speclib  # noqa: E402

REPO = os.environ.get("VERIF_REPO", "/repo")
CACHE = os.path.join(VERIF, ".cache")
GEN = os.environ.get("VERIF_GEN", os.path.join(VERIF, "gen"))
EXTRACT_BIN = os.path.join(CACHE, "extract-target", "release", "extract")
HEADER = ("#![allow(unused_imports, non_snake_case, unused_variables, unused_mut, redundant_semicolons, "
          "unused_parens, dead_code, unused_braces, non_camel_case_types)]\nuse vstd::prelude::*;\nverus! {\n")
FOOTER = "\n} // verus!\nfn main() {}\n"
EXEC_SHARDS = {"Dual__Dual__Dual": 5, "Dual__Dual": 2, "HyperHyperDual": 5, "Dual3": 2, "HyperDual": 2}
NL_SHARDS = {"Dual__Dual": 2, "Dual__Dual__Dual": 8, "HyperHyperDual": 8, "Dual3": 3, "HyperDual": 3, "Dual2": 2, "Dual": 2, "DualVec": 2, "Dual2Vec": 3, "HyperDualVec": 3}
NL_TIMEOUT_MS = int(os.environ.get("VERIF_NL_TIMEOUT_MS", "30000"))
VECTOR_UNITS = ["DualVec", "Dual2Vec", "HyperDualVec"]
SCALAR_TYPES = ["Dual", "Dual2", "Dual3", "HyperDual", "HyperHyperDual"]


class Undecided(Exception):
    pass


def log(*a):
    print(*a, file=sys.stderr, flush=True)


def env_offline():
    e = dict(os.environ)
    e["CARGO_NET_OFFLINE"] = "true"
    return e


def expand(features=""):
    """(1) the compiler's own macro expansion of the working tree"""
    os.makedirs(GEN, exist_ok=True)
    out = os.path.join(GEN, "expanded%s.rs" % ("_" + features.replace(" ", "_") if features else ""))
    cmd = ["cargo", "+nightly", "rustc", "--lib", "--offline", "--manifest-path", os.path.join(REPO, "Cargo.toml")]
    if features:
        cmd += ["--features", features]
    cmd += ["--", "-Zunpretty=expanded"]
    e = env_offline()
    e["CARGO_TARGET_DIR"] = os.path.join(CACHE, "expand-target")
    t0 = time.time()
    p = subprocess.run(cmd, env=e, capture_output=True, text=True)
    if p.returncode != 0 or len(p.stdout) < 1000:
        log(p.stderr[-3000:])
        raise Undecided("the working tree does not compile (cargo rustc -Zunpretty=expanded failed)")
    with open(out, "w") as f:
        f.write(p.stdout)
    return out, time.time() - t0


def inner_chain(unit):
    """Dual__Dual__Dual -> [Dual__Dual, Dual]"""
    out = []
    while "__" in unit:
        unit = unit.split("__", 1)[1]
        out.append(unit)
    return out


def extract(expanded, units):
    if not os.path.exists(EXTRACT_BIN):
        raise Undecided("extractor not built; run MANIFEST.setup_cmd")
    units = list(units)
    if any(u in VECTOR_UNITS for u in units) and "Derivative" not in units:
        units.append("Derivative")
    for u in list(units):
        for inner in inner_chain(u):
            if inner not in units:
                units.append(inner)
    p = subprocess.run([EXTRACT_BIN, expanded, os.path.join(VERIF, "contracts", "contracts.json"), GEN] + units,
                       capture_output=True, text=True)
    if p.returncode != 0:
        log(p.stderr[-3000:])
        raise Undecided("extractor failed: " + p.stderr[-300:])
    metas = {}
    for u in units:
        metas[u] = json.load(open(os.path.join(GEN, u + ".meta.json")))
    return metas


class Item:
    """one obligation-carrying item of a generated file"""

    def __init__(self, kind, name, first, last, info):
        self.kind, self.name, self.first, self.last, self.info = kind, name, first, last, info


class UnitFile:
    def __init__(self, unit, path, items, lemmas_, n_canaries):
        self.unit, self.path, self.items, self.lemmas, self.n_canaries = unit, path, items, lemmas_, n_canaries
        self.nl_modes = ["nl%d" % k for k in range(NL_SHARDS.get(unit, 1))]
        self.ex_modes = ["ex%d" % k for k in range(EXEC_SHARDS.get(unit, 1))]

    def item_at(self, line):
        for it in self.items:
            if it.first <= line <= it.last:
                return it
        return None


def assemble(unit, meta, extra_lemmas=None):
    """(2)->(3) one self-contained Verus file per unit: prelude, speclib, mirrors, exec, mod nl, mod canary"""
    parts = []
    items = []
    line = [1]

    def emit(txt):
        parts.append(txt)
        line[0] += txt.count("\n")

    emit(HEADER)
    emit(prelude.generate())
    if unit in VECTOR_UNITS or unit == "Derivative":
        emit(prelude.generate_mx())
    if unit == "F64":
        emit(prelude.generate_fp())
    if unit != "F64":
        emit(prelude.generate_fmt(unit in VECTOR_UNITS or unit == "Derivative"))
    if unit in VECTOR_UNITS:
        emit("\n// ===== Derivative: contracts only (external_body stubs); the bodies are verified in unit Derivative =====\n")
        emit(open(os.path.join(GEN, "Derivative.iface.rs")).read())
    emit(speclib.generate())
    for inner in reversed(inner_chain(unit)):
        emit("\n// ===== inner type %s of the nesting: mirrors + contracts only (bodies are verified in unit %s) =====\n" % (inner, inner))
        emit(open(os.path.join(GEN, inner + ".mirror.rs")).read())
        emit(open(os.path.join(GEN, inner + ".iface.rs")).read())
    emit("\n// ===== mirrors (generated by symbolic evaluation; re-proved against the verbatim bodies below) =====\n")
    emit(open(os.path.join(GEN, unit + ".mirror.rs")).read())
    emit("\n// ===== exec: verbatim bodies with contract headers (sharded into modules ex0..exK-1) =====\n")
    exec_lines = open(os.path.join(GEN, unit + ".exec.rs")).read().split("\n")
    # line 1-2: header comment + struct definition stay in the root module
    emit("\n".join(exec_lines[:2]) + "\n")
    nex = EXEC_SHARDS.get(unit, 1)
    fns = meta["functions"]
    for k in range(nex):
        emit("pub mod ex%d {\nuse super::*;\n" % k)
        for i, f in enumerate(fns):
            if i % nex != k:
                continue
            first = line[0]
            emit("\n".join(exec_lines[f["gen_line"] - 1:f["gen_end_line"]]) + "\n")
            items.append(Item("exec", f["id"], first, line[0] - 1, f))
        emit("}\n")
    if unit == "Derivative":
        ls = []
    elif unit == "F64":
        ls = lemmas.gen_float_lemmas(meta)
    else:
        ls = lemmas.gen_type_lemmas(meta)
        if "__" not in unit:
            ls += lemmas.gen_field_lemmas(meta) + lemmas.gen_transparency_lemmas(meta) + lemmas.gen_cmp_lemmas(meta)
    if extra_lemmas:
        ls += extra_lemmas
    emit("\n// ===== flat non-linear property lemmas (sharded into modules nl0..nlK-1; `nl` re-exports all) =====\n")
    nshards = NL_SHARDS.get(unit, 1)
    nl_lemmas = [l for l in ls if l.mode == "nl"]
    for k in range(nshards):
        emit("pub mod nl%d {\nuse super::*;\n" % k)
        for i, l in enumerate(nl_lemmas):
            if i % nshards != k:
                continue
            txt = l.text()
            first = line[0]
            emit(txt)
            items.append(Item("lemma", l.name, first, line[0] - 1, l))
        emit("}\n")
    emit("pub mod nl {\n" + "".join("pub use super::nl%d::*;\n" % k for k in range(nshards)) + "}\n")
    emit("\n// ===== composition lemmas (default mode): per-operation lemmas chained along the program text =====\n")
    for l in ls:
        if l.mode != "root":
            continue
        txt = l.text()
        first = line[0]
        emit(txt)
        items.append(Item("lemma", l.name, first, line[0] - 1, l))
    emit("\n// ===== canaries: same hypotheses, `ensures false`; every one must FAIL =====\npub mod canary {\nuse super::*;\n")
    ncan = 0
    for l in ls:
        if l.requires:
            txt = l.text(canary=True)
            first = line[0]
            emit(txt)
            items.append(Item("canary", "canary_" + l.name, first, line[0] - 1, l))
            ncan += 1
    emit("}\n")
    emit(FOOTER)
    path = os.path.join(GEN, "unit_%s.rs" % unit)
    with open(path, "w") as f:
        f.write("".join(parts))
    return UnitFile(unit, path, items, ls, ncan)


class VerusResult:
    def __init__(self):
        self.verified = 0
        self.errors = 0
        self.diags = []  # (message, primary (line), labelled lines [(line,label)], rendered)
        self.fatal = None
        self.wall = 0.0
        self.cmd = ""
        self.smt_ms = None


RESULT_RE = re.compile(r"verification results:: (\d+) verified, (\d+) errors")


def run_verus(path, mode, rlimit=None, timeout=3000, nl_timeout_ms=None):
    cmd = ["verus", path, "--error-format=json", "--multiple-errors", "10" if (mode == "root" or mode.startswith("ex")) else "3", "--time"]
    if mode == "root":
        cmd += ["--verify-root"]
    elif mode.startswith("ex"):
        cmd += ["--verify-only-module", mode]
    else:
        # flat non-linear lemma modules: macro_finder inlines the spec functions for nlsat; hard per-query timeout;
        # algebraic numbers in counter-models printed as decimals (the AIR model parser panics on root-obj syntax)
        cmd += ["--verify-only-module", mode, "--smt-option", "smt.macro_finder=true",
                "--smt-option", "timeout=%d" % (nl_timeout_ms or NL_TIMEOUT_MS), "--smt-option", "pp.decimal=true"]
    if rlimit:
        cmd += ["--rlimit", str(rlimit)]
    r = VerusResult()
    r.cmd = " ".join(cmd)
    t0 = time.time()
    # own process group: a timeout must also kill the z3 children
    proc = subprocess.Popen(cmd, stdout=subprocess.PIPE, stderr=subprocess.PIPE, text=True, cwd=VERIF, start_new_session=True)
    try:
        so, se = proc.communicate(timeout=timeout)
    except subprocess.TimeoutExpired:
        try:
            os.killpg(proc.pid, signal.SIGKILL)
        except Exception:
            pass
        proc.communicate()
        r.fatal = "verus timed out after %ds" % timeout
        r.wall = time.time() - t0
        return r

    class P:
        pass
    p = P()
    p.stdout, p.stderr = so, se
    r.wall = time.time() - t0
    out = p.stdout + "\n" + p.stderr
    m = RESULT_RE.search(out)
    if m:
        r.verified, r.errors = int(m.group(1)), int(m.group(2))
    m2 = re.search(r"smt-run:\s+([\d.]+)\s*s", out) or re.search(r"total-time:\s+([\d.]+)", out)
    if m2:
        r.smt_ms = m2.group(0)
    for ln in out.splitlines():
        ln = ln.strip()
        if not ln.startswith("{"):
            continue
        try:
            d = json.loads(ln)
        except Exception:
            continue
        if d.get("level") != "error":
            continue
        msg = d.get("message", "")
        if msg.startswith("aborting due to"):
            continue
        prim = None
        labelled = []
        for s in d.get("spans", []):
            if s.get("file_name", "").endswith(os.path.basename(path)):
                if s.get("is_primary"):
                    prim = s["line_start"]
                if s.get("label"):
                    labelled.append((s["line_start"], s["label"]))
        r.diags.append((msg, prim, labelled, d.get("rendered", "")))
        if d.get("code") or "internal error" in msg or "panicked" in msg:
            r.fatal = "verus/rustc error: " + msg
    if not m and not r.fatal:
        r.fatal = "no verification result line in verus output: " + out[-400:]
    return r


def merge_results(rs):
    m = VerusResult()
    for r in rs:
        m.verified += r.verified
        m.errors += r.errors
        m.diags += r.diags
        m.fatal = m.fatal or r.fatal
        m.wall = max(m.wall, r.wall)
        m.cmd = r.cmd if not m.cmd else m.cmd
    return m


def run_many(jobs, workers=None):
    """jobs: list of (key, path, mode, rlimit); run in parallel"""
    res = {}
    workers = workers or min(16, max(1, len(jobs)))
    with ThreadPoolExecutor(max_workers=workers) as ex:
        futs = {ex.submit(run_verus, j[1], j[2], j[3] if len(j) > 3 else None): j[0] for j in jobs}
        for f, k in futs.items():
            res[k] = f.result()
    return res


def needs_retry(r):
    """a run that ended in a resource limit / time-out somewhere (load-dependent): worth one calmer second attempt"""
    return bool(r.fatal and "timed out" in r.fatal) or any(UNDECIDED_PAT.search(d[0]) for d in r.diags)


def retry_undecided(jobs, res, log=None):
    """re-run, one at a time and with four times the resources, every module whose first run hit a resource limit.
    Only the undecided outcome can change: a refuted obligation is refuted again."""
    n = 0
    for j in jobs:
        r = res[j[0]]
        mode = j[2]
        if r is None or mode == "canary" or not needs_retry(r):
            continue
        r2 = run_verus(j[1], mode, rlimit=40, nl_timeout_ms=4 * NL_TIMEOUT_MS)
        r2.wall += r.wall
        r2.cmd = r2.cmd + "   # second attempt after a resource limit in the first"
        res[j[0]] = r2
        n += 1
    return n


UNDECIDED_PAT = re.compile(r"rlimit|resource limit|timed? ?out|could not prove termination", re.I)


class Obligation:
    def __init__(self, unit, kind, name, status, detail="", props=(), what=""):
        self.unit, self.kind, self.name, self.status, self.detail, self.props, self.what = unit, kind, name, status, detail, list(props), what
        # gated: the failed obligation is a proof script tied to the operation sequence of the body (composition lemma, or a
        # definedness obligation discharged through a ghost hint); it becomes a violation only together with a failing input
        self.gated = False

    def key(self):
        return "%s/%s/%s" % (self.unit, self.kind, self.name)


def classify(uf, root_res, nl_res, can_res):
    """turn the three verus results of one unit into a list of obligations"""
    obs = []
    if root_res is not None and root_res.fatal:
        raise Undecided("%s (root): %s" % (uf.unit, root_res.fatal))
    if nl_res is not None and nl_res.fatal:
        raise Undecided("%s (nl): %s" % (uf.unit, nl_res.fatal))
    failed = {}  # item name -> list of (kind,msg)
    for res, mode in ((root_res, "root"), (nl_res, "nl")):
        if res is None:
            continue
        for msg, prim, labelled, rendered in res.diags:
            line = prim
            it = uf.item_at(line) if line else None
            if it is None:
                for (l, _) in labelled:
                    it = uf.item_at(l)
                    if it:
                        break
            if it is None:
                raise Undecided("%s (%s): cannot attribute verus error: %s" % (uf.unit, mode, rendered[:500]))
            failed.setdefault((it.kind, it.name), []).append((msg, labelled, rendered))
    for it in uf.items:
        if it.kind == "exec" and root_res is not None:
            fl = failed.get(("exec", it.name), [])
            if not fl:
                obs.append(Obligation(uf.unit, "exec", it.name, "discharged", props=exec_props(it.info), what="mirror equality + definedness + overflow"))
                continue
            for msg, labelled, rendered in fl:
                if UNDECIDED_PAT.search(msg):
                    obs.append(Obligation(uf.unit, "exec", it.name, "undecided", rendered, exec_props(it.info)))
                elif "postcondition" in msg and it.info.get("manual") and (it.info.get("ty") == "Derivative" or it.info.get("trait") == "Display" or "C17" in (it.info.get("props") or [])):
                    # hand-written contract taken from the property (dense-view semantics): a real violation
                    obs.append(Obligation(uf.unit, "contract", it.name, "failed", rendered, exec_props(it.info), it.info.get("what") or "dense-view contract"))
                elif "postcondition" in msg:
                    # the generated mirror does not describe the body: a tool problem, never a violation
                    obs.append(Obligation(uf.unit, "exec-mirror", it.name, "undecided", rendered, exec_props(it.info)))
                elif "precondition" in msg:
                    obs.append(Obligation(uf.unit, "definedness", it.name, "failed", rendered, exec_props(it.info), "a partial operation is evaluated outside its domain"))
                    # whether Verus can show a denominator non-zero depends on how the body writes it (default mode has no
                    # non-linear reasoning; ghost hints supply it for the shapes the crate uses): gated on a replayed input
                    obs[-1].gated = True
                elif "overflow" in msg:
                    obs.append(Obligation(uf.unit, "overflow", it.name, "failed", rendered, exec_props(it.info), "integer arithmetic may overflow"))
                else:
                    obs.append(Obligation(uf.unit, "exec", it.name, "undecided", rendered, exec_props(it.info)))
        elif it.kind == "lemma" and ((it.info.mode == "nl" and nl_res is not None) or (it.info.mode == "root" and root_res is not None)):
            fl = failed.get(("lemma", it.name), [])
            if not fl:
                obs.append(Obligation(uf.unit, "lemma", it.name, "discharged", props=it.info.prop, what=it.info.what))
                continue
            for msg, labelled, rendered in fl:
                st = "undecided" if UNDECIDED_PAT.search(msg) else "failed"
                obs.append(Obligation(uf.unit, "lemma", it.name, st, rendered, it.info.prop, it.info.what))
                obs[-1].gated = bool(getattr(it.info, "structural", False))
    # canaries
    if can_res is not None:
        if can_res.fatal:
            raise Undecided("%s (canary): %s" % (uf.unit, can_res.fatal))
        if can_res.verified != 0 or can_res.errors != uf.n_canaries:
            raise Undecided("%s: vacuity guard tripped: %d canaries verified, %d/%d failed as required" % (uf.unit, can_res.verified, can_res.errors, uf.n_canaries))
    return obs


ELEMENTARY = {"recip", "sqrt", "cbrt", "exp", "exp2", "exp_m1", "ln", "log", "log2", "log10", "ln_1p", "sin", "cos", "tan",
              "sin_cos", "asin", "acos", "atan", "atan2", "sinh", "cosh", "tanh", "asinh", "acosh", "atanh", "abs", "signum",
              "abs_sub", "chain_rule"}
POWERS = {"powi", "powf", "powd"}
SPH = {"sph_j0", "sph_j1", "sph_j2"}


def exec_props(f):
    pr = exec_props0(f)
    if f.get("ty") in VECTOR_UNITS and "C07" not in pr:
        # contracts of the vector types are functions of the dense view only (absent = zero)
        pr = pr + ["C07"]
    return pr


def exec_props0(f):
    if f.get("variant") or "C17" in (f.get("props") or []):
        return list(f.get("props") or [])
    if f.get("trait") in ("ComplexField", "RealField"):
        return ["C11"]
    if f.get("trait") in ("PartialEq", "PartialOrd"):
        return ["C06"]
    if f.get("trait") == "Display":
        return ["C18"]
    n = f["name"]
    tr = f.get("trait")
    if f.get("ty") == "Derivative":
        return list(f.get("props") or ["C07"])
    if f.get("ty") == "F64":
        return ["C06"] + (["C15", "C10"] if n in SPH else []) + (["C09"] if n in POWERS else [])
    if n in POWERS:
        return ["C09", "C10", "C03"]
    if n in SPH:
        return ["C15", "C10", "C03"]
    if n == "atan2":
        return ["C10", "C01", "C03"]
    if n in ELEMENTARY:
        return ["C01", "C03"]
    if tr in ("Mul", "Div", "Add", "Sub", "Neg") and f.get("self_ref") and f.get("rhs") in ("SelfRef", "None"):
        return ["C02", "C03"]
    if n == "mul_add":
        return ["C08", "C03"]
    return ["C08", "C03"]


def file_sha(path):
    return hashlib.sha256(open(path, "rb").read()).hexdigest()[:16]


def assemble_spec():
    """the static specification unit (no code): table validation, embeddings, power agreement, program induction"""
    import specunit
    parts, items, line = [], [], [1]

    def emit(txt):
        parts.append(txt)
        line[0] += txt.count("\n")

    emit(HEADER)
    emit(prelude.generate())
    emit(speclib.generate())
    ls = specunit.all_lemmas()
    nsh = 2
    for k in range(nsh):
        emit("pub mod nl%d {\nuse super::*;\n" % k)
        for i, l in enumerate(ls):
            if i % nsh != k:
                continue
            first = line[0]
            emit(l.text())
            items.append(Item("lemma", l.name, first, line[0] - 1, l))
        emit("}\n")
    emit("pub mod nl {\n" + "".join("pub use super::nl%d::*;\n" % k for k in range(nsh)) + "}\n")
    first = line[0]
    emit(specunit.PROG)
    hom = lemmas.Lemma("lemma_hom", "", [], [], ["C03", "C04"], "embedding Dual2 -> HyperDual commutes with evaluation of every program (structural induction)", mode="root")
    items.append(Item("lemma", "lemma_hom", first, line[0] - 1, hom))
    emit("\npub mod canary {\nuse super::*;\n")
    ncan = 0
    for l in ls:
        if l.requires:
            first = line[0]
            emit(l.text(canary=True))
            items.append(Item("canary", "canary_" + l.name, first, line[0] - 1, l))
            ncan += 1
    emit("}\n")
    emit(FOOTER)
    path = os.path.join(GEN, "unit_Spec.rs")
    with open(path, "w") as f:
        f.write("".join(parts))
    uf = UnitFile("Spec", path, items, ls + [hom], ncan)
    uf.nl_modes = ["nl%d" % k for k in range(nsh)]
    uf.ex_modes = []
    return uf


def extract_py(expanded, classes):
    p = subprocess.run([EXTRACT_BIN, expanded, os.path.join(VERIF, "contracts", "contracts.json"), GEN, "Py"] + list(classes), capture_output=True, text=True)
    if p.returncode != 0:
        log(p.stderr[-2000:])
        raise Undecided("extractor failed on the python expansion: " + p.stderr[-300:])
    return json.load(open(os.path.join(GEN, "Py.meta.json")))


def assemble_py(meta, nshards=4):
    """Python wrapper unit (C17): wrapper bodies against forwarding contracts over the abstract wrapped number"""
    parts, items, line = [], [], [1]

    def emit(txt):
        parts.append(txt)
        line[0] += txt.count("\n")

    emit(HEADER)
    emit(prelude.generate())
    emit(prelude.generate_py())
    lines = open(os.path.join(GEN, "Py.exec.rs")).read().split("\n")
    fns = meta["functions"]
    # struct definitions (lines not inside any function range) stay in the root module
    covered = set()
    for f in fns:
        covered.update(range(f["gen_line"], f["gen_end_line"] + 1))
    emit("\n".join(l for i, l in enumerate(lines, 1) if i not in covered) + "\n")
    for k in range(nshards):
        emit("pub mod ex%d {\nuse super::*;\n" % k)
        for i, f in enumerate(fns):
            if i % nshards != k:
                continue
            first = line[0]
            emit("\n".join(lines[f["gen_line"] - 1:f["gen_end_line"]]) + "\n")
            items.append(Item("exec", f["id"], first, line[0] - 1, f))
        emit("}\n")
    emit(FOOTER)
    path = os.path.join(GEN, "unit_Py.rs")
    with open(path, "w") as fh:
        fh.write("".join(parts))
    uf = UnitFile("Py", path, items, [], 0)
    uf.nl_modes = []
    uf.ex_modes = ["ex%d" % k for k in range(nshards)]
    return uf
