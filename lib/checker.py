"""Per-property checks: select units and obligations, run the pipeline, decide, write evidence."""
import argparse
import json
import os
import re
import sys
import time

import pipeline as pl
from pipeline import Undecided, log

VERIF = pl.VERIF
EVID = os.path.join(VERIF, "evidence")
KNOWN = os.path.join(VERIF, "known_findings.txt")

TRUSTED_BASE = [
    "model prelude (lib/prelude.py): abstract scalar Sc / float constant Fl with a real-valued view -- machine arithmetic treated as mathematical (no rounding, overflow to inf, NaN)",
    "axioms on the uninterpreted real functions (ax_* in the prelude, admit()-ed): recip, sqrt, cbrt, sin^2+cos^2, cosh^2-sinh^2, powi/powf recursion, exp/ln, float-grid fact for |n-2|<eps",
    "first-derivative column of the derivative tables (lib/lemmas.py TABLES / validation lemmas) and the base definition of first-order dual numbers (lib/speclib.py)",
    "extraction rewrite rules R1-R11 (tools/extract) and rustc's -Zunpretty=expanded output being the code that is compiled",
    "parametricity of the generic code in T (proved for T = abstract scalar; see DESIGN.md section 7)",
    "Verus 0.2026.09.13 / Z3 (bundled); smt.macro_finder=true for the non-linear lemma modules",
]

# property -> configuration of the Verus route
ALL_TYPES = pl.SCALAR_TYPES + pl.VECTOR_UNITS
VERUS_PROPS = {
    "C01": dict(units=ALL_TYPES + ["Spec", "Dual__Dual"], thorough=["Dual__Dual__Dual"]),
    "C02": dict(units=ALL_TYPES + ["Derivative", "Dual__Dual"], thorough=["Dual__Dual__Dual"]),
    "C03": dict(units=ALL_TYPES + ["Spec", "Derivative", "Dual__Dual"], thorough=["Dual__Dual__Dual"]),
    "C04": dict(units=["Spec", "Dual", "Dual2", "HyperDual", "Dual3", "HyperHyperDual", "Dual__Dual", "Derivative"] + pl.VECTOR_UNITS, thorough=["Dual__Dual__Dual"]),
    "C06": dict(units=ALL_TYPES + ["F64"]),
    "C07": dict(units=pl.VECTOR_UNITS + ["Derivative"]),
    "C08": dict(units=ALL_TYPES),
    "C09": dict(units=ALL_TYPES + ["Spec", "F64"]),
    "C10": dict(units=ALL_TYPES + ["F64"]),
    "C11": dict(units=["Dual", "Dual2", "DualVec", "Dual2Vec"]),
    "C15": dict(units=ALL_TYPES + ["F64"]),
    "C18": dict(units=ALL_TYPES + ["Derivative"], only_exec=True),
}


KANI_PROPS = {"C02", "C03", "C04", "C05", "C06", "C08", "C11", "C12", "C13", "C16"}
KANI_TRUSTED = [
    "Kani 0.68 / CBMC 6.11: MIR -> goto translation, IEEE-754 float model, the harness code in /verif/kani (asserted contracts, universal-probe closures, exact token format for serde)",
    "libm functions are not modelled deterministically by CBMC: no Kani harness compares two calls of an elementary function",
]


def py_route(pid, tier):
    """C17 (reduced scope): the pure wrapper methods of the Python classes (expansion with --features python)"""
    t0 = time.time()
    expanded, t_exp = pl.expand("python")
    contracts = json.load(open(os.path.join(VERIF, "contracts", "contracts.json")))
    classes = [] if tier == "thorough" else contracts["py_classes_quick"]
    meta = pl.extract_py(expanded, classes)
    if meta["classes"] == 0 or not meta["functions"]:
        raise Undecided("no Python wrapper class found in the expansion (lost anchor)")
    uf = pl.assemble_py(meta)
    jobs = [(("Py", k), uf.path, k) for k in ["root"] + uf.ex_modes]
    res = pl.run_many(jobs)
    root = pl.merge_results([res[("Py", k)] for k in ["root"] + uf.ex_modes])
    obs = pl.classify(uf, root, None, None)
    info = dict(units={"Py": dict(functions_under_contract=len(meta["functions"]), classes=meta["classes"], lemmas=0, canaries_failed_as_required=0,
                                  verus_verified_root=root.verified, verus_verified_nl=0, wall_s=dict(root=round(root.wall, 1)), skipped=meta["skipped"],
                                  rewrite_rule_counts=meta["rewrite_rule_counts"], assumption_scan=scan_assumptions(uf.path),
                                  generated_file=os.path.relpath(uf.path, VERIF), cmds=[root.cmd])}, expand_s=round(t_exp, 1), wall_s=round(time.time() - t0, 1))
    return obs, info, {"Py": meta}


def kani_route(pid, tier):
    """harnesses of /verif/kani on the real crate (path dependency on VERIF_REPO); one obligation per harness"""
    import subprocess
    t0 = time.time()
    cmd = [os.path.join(VERIF, "bin", "kani_check"), pid, "--tier", "thorough" if tier == "thorough" else "quick"]
    p = subprocess.run(cmd, capture_output=True, text=True, env=dict(os.environ, VERIF_REPO=pl.REPO))
    obs, rows, summary = [], [], None
    for ln in p.stdout.splitlines():
        ln = ln.strip()
        if not ln.startswith("{"):
            continue
        try:
            d = json.loads(ln)
        except Exception:
            continue
        if "summary" in d:
            summary = d["summary"]
            continue
        if "harness" not in d:
            continue
        rows.append(d)
        st = {"pass": "discharged", "fail": "failed"}.get(d.get("status"), "undecided")
        detail = ""
        if st != "discharged":
            detail = "failed CBMC checks:\n  " + "\n  ".join(d.get("failed_checks", [])[:20])
            if d.get("counterexample"):
                detail += "\nconcrete counterexample (kani --concrete-playback, replayed by re-running the harness on the real code):\n  " + json.dumps(d["counterexample"])[:3000]
            if d.get("reason"):
                detail += "\nreason: " + str(d["reason"])
            detail += "\ncmd: " + str(d.get("cmd"))
        o = pl.Obligation("kani", "harness", d["harness"], st, detail, [pid], d.get("what") or d.get("bound") or "Kani harness on the real code")
        # a failed native enumeration prints the first failing input in its panic message: that is a concrete input on the real code
        native_fail = str(d.get("kind", "")).startswith("native") and st == "failed" and bool(d.get("failed_checks"))
        if native_fail:
            detail = "FAILING INPUT on the real code (panic message of the native enumeration):\n  " + "\n  ".join(d.get("failed_checks", [])[:4]) + "\n" + detail
        o.detail = detail
        o.has_cex = bool(d.get("counterexample")) or native_fail
        obs.append(o)
    if not rows:
        raise Undecided("kani_check produced no harness results (rc=%d): %s" % (p.returncode, (p.stderr or p.stdout)[-600:]))
    info = dict(harnesses=len(rows), wall_s=round(time.time() - t0, 1), cmd=" ".join(cmd), summary=summary,
                rows=[dict(harness=r["harness"], status=r.get("status"), checks_total=r.get("checks_total"), time_s=r.get("time_s"), bound=r.get("bound")) for r in rows])
    return obs, info


def load_known():
    finds, fixed = [], []
    if os.path.exists(KNOWN):
        for ln in open(KNOWN):
            ln = ln.strip()
            if ln.startswith("finding:"):
                m = re.match(r"finding:\s+property=(\S+)\s+obligation=(\S+)\s*(.*)", ln)
                if m:
                    finds.append((m.group(1), m.group(2), m.group(3)))
            elif ln.startswith("fixed:"):
                fixed.append(ln)
    return finds, fixed


def scan_assumptions(path):
    txt = open(path).read()
    out = {}
    for k in ["external_body", "admit()", "uninterp spec fn", "assume_specification", "assume("]:
        out[k] = txt.count(k)
    return out


def verus_route(pid, tier):
    cfg = dict(VERUS_PROPS[pid])
    if tier == "thorough":
        cfg["units"] = cfg["units"] + cfg.get("thorough", [])
    t0 = time.time()
    expanded, t_exp = pl.expand()
    code_units = [u for u in cfg["units"] if u != "Spec"]
    metas = pl.extract(expanded, code_units) if code_units else {}
    metas = {u: m for u, m in metas.items() if u in cfg["units"]}
    if "Spec" in cfg["units"]:
        metas["Spec"] = dict(unit="Spec", functions=[], skipped=[], rewrite_rule_counts={})
    ufs = {}
    jobs = []
    for u in cfg["units"]:
        uf = pl.assemble_spec() if u == "Spec" else pl.assemble(u, metas[u])
        ufs[u] = uf
        jobs.append(((u, "root"), uf.path, "root"))
        for k in ([] if cfg.get("only_exec") else uf.nl_modes) + uf.ex_modes:
            jobs.append(((u, k), uf.path, k))
        if not cfg.get("only_exec"):
            jobs.append(((u, "canary"), uf.path, "canary"))
    # big units first
    jobs.sort(key=lambda j: -os.path.getsize(j[1]))
    res = pl.run_many(jobs)
    n_retry = pl.retry_undecided(jobs, res)
    for u, uf in ufs.items():
        if cfg.get("only_exec"):
            res[(u, "nl")] = None
            res[(u, "canary")] = None
        else:
            res[(u, "nl")] = pl.merge_results([res[(u, k)] for k in uf.nl_modes])
        res[(u, "root")] = pl.merge_results([res[(u, "root")]] + [res[(u, k)] for k in uf.ex_modes])
    obs = []
    info = dict(units={}, expand_s=round(t_exp, 1), modules_rerun_after_resource_limit=n_retry)
    for u, uf in ufs.items():
        o = pl.classify(uf, res[(u, "root")], res[(u, "nl")], res[(u, "canary")])
        obs += o
        n_fn = sum(1 for it in uf.items if it.kind == "exec")
        n_lem = sum(1 for it in uf.items if it.kind == "lemma")
        # every function of the file must have been looked at by exactly one of the two invocations
        info["units"][u] = dict(
            functions_under_contract=n_fn,
            lemmas=n_lem,
            canaries_failed_as_required=res[(u, "canary")].errors if res[(u, "canary")] else 0,
            verus_verified_root=res[(u, "root")].verified,
            verus_verified_nl=res[(u, "nl")].verified if res[(u, "nl")] else 0,
            wall_s=dict(root=round(res[(u, "root")].wall, 1), nl=round(res[(u, "nl")].wall, 1) if res[(u, "nl")] else 0, canary=round(res[(u, "canary")].wall, 1) if res[(u, "canary")] else 0),
            skipped=metas[u]["skipped"],
            rewrite_rule_counts=metas[u]["rewrite_rule_counts"],
            assumption_scan=scan_assumptions(uf.path),
            generated_file=os.path.relpath(uf.path, VERIF),
            cmds=[res[(u, m)].cmd for m in ("root", "nl", "canary") if res[(u, m)]],
        )
    info["wall_s"] = round(time.time() - t0, 1)
    return obs, info, metas


def required_anchors(pid, metas):
    """lost-anchor guard: functions each property depends on must have been extracted"""
    need = {
        "C01": ["recip", "sqrt", "cbrt", "exp", "exp2", "exp_m1", "ln", "log", "log2", "log10", "ln_1p", "sin", "cos", "sin_cos", "tan",
                "asin", "acos", "atan", "atan2", "sinh", "cosh", "tanh", "asinh", "acosh", "atanh", "abs", "signum", "chain_rule"],
        "C02": ["mul", "div", "add", "sub", "neg", "chain_rule"],
        "C04": ["mul", "div", "add", "sub", "neg", "chain_rule"],
        "C03": ["mul", "div", "add", "sub", "neg", "chain_rule", "mul_add", "powd", "tan", "tanh"],
        "C08": ["mul", "div", "add", "sub", "neg", "mul_assign", "div_assign", "add_assign", "sub_assign", "inv", "from", "zero", "one", "mul_add"],
        "C07": ["mul", "div", "add", "sub", "neg", "mul_assign", "div_assign", "add_assign", "sub_assign", "chain_rule"],
        "C09": ["powi", "powf", "powd"],
        "C10": ["powi", "powf", "atan2", "sph_j0", "sph_j1", "sph_j2", "exp_m1", "ln_1p"],
        "C15": ["sph_j0", "sph_j1", "sph_j2"],
        "C18": ["fmt"],
    }.get(pid, [])
    lost = []
    for u, m in metas.items():
        names = {f["name"] for f in m["functions"]}
        if u == "Spec":
            continue
        if u == "F64":
            for n in (["sph_j0", "sph_j1", "sph_j2"] if pid in ("C15", "C10") else ["sin", "cos", "exp", "ln", "powi", "powf", "recip", "sqrt"]):
                if n not in names:
                    lost.append("F64::" + n)
            continue
        if u == "Derivative":
            for n in ["mul", "div", "tr_mul", "add", "sub", "neg", "add_assign", "sub_assign", "mul_assign", "div_assign", "unwrap_generic"]:
                if n not in names:
                    lost.append("Derivative::" + n)
            continue
        for n in need:
            if n not in names:
                lost.append("%s::%s" % (u, n))
    return lost


def write_evidence(pid, tier, level, coverage, assumptions, wall, violations):
    if os.path.realpath(pl.REPO) != "/repo":
        # a run against a scratch copy (self-test with seeded changes) must not overwrite the evidence of the real tree
        os.makedirs(pl.GEN, exist_ok=True)
        with open(os.path.join(pl.GEN, "evidence_%s.json" % pid), "w") as f:
            json.dump(dict(property_id=pid, tier=tier, level=level, coverage=coverage, wall_s=round(wall, 1), violations=violations), f, indent=1)
        return
    os.makedirs(EVID, exist_ok=True)
    ev = dict(property_id=pid, tier=tier, seed=int(os.environ.get("VERIF_SEED", "0") or 0), level=level, coverage=coverage,
              assumptions=assumptions, wall_s=round(wall, 1), violations=violations)
    with open(os.path.join(EVID, pid + ".json"), "w") as f:
        json.dump(ev, f, indent=1)


def main(argv):
    ap = argparse.ArgumentParser()
    ap.add_argument("pid")
    ap.add_argument("--tier", default=os.environ.get("VERIF_TIER", "quick"))
    ap.add_argument("--replay", default=None)
    a = ap.parse_args(argv)
    pid, tier = a.pid, a.tier
    # one generation directory per property: checks may run concurrently
    if "VERIF_GEN" not in os.environ:
        pl.GEN = os.path.join(VERIF, "gen", pid)
    os.makedirs(pl.GEN, exist_ok=True)
    if a.replay:
        print(open(a.replay).read())
        return 0
    t0 = time.time()
    try:
        if pid not in VERUS_PROPS and pid not in KANI_PROPS and pid != "C17":
            print("UNDECIDED: no check registered for %s" % pid)
            return 2
        obs, info, metas, kinfo = [], dict(units={}), {}, None
        if pid == "C17":
            obs, info, metas = py_route(pid, tier)
        elif pid in VERUS_PROPS:
            obs, info, metas = verus_route(pid, tier)
            lost = required_anchors(pid, metas)
            if lost:
                raise Undecided("lost anchors: " + ", ".join(lost))
        if pid in KANI_PROPS and os.environ.get("VERIF_NO_KANI") != "1":
            kobs, kinfo = kani_route(pid, tier)
            obs = obs + kobs
    except Undecided as e:
        print("UNDECIDED property=%s: %s" % (pid, e))
        return 2
    rel = [o for o in obs if pid in o.props]
    if not rel:
        print("UNDECIDED property=%s: zero obligations generated" % pid)
        return 2
    finds, fixed = load_known()
    failed = [o for o in rel if o.status == "failed"]
    undecided = [o for o in rel if o.status == "undecided"]
    discharged = [o for o in rel if o.status == "discharged"]
    known_hits, new_fail = [], []
    for o in failed:
        hit = [f for f in finds if f[0] == pid and f[1] == o.key()]
        (known_hits if hit else new_fail).append((o, hit))
    rc = 0
    for o, hit in known_hits:
        print("KNOWN-FINDING: property=%s %s %s" % (pid, o.key(), hit[0][2]))
    replay_path = None
    if new_fail:
        os.makedirs(os.path.join(pl.GEN, "replay"), exist_ok=True)
        replay_path = os.path.join(pl.GEN, "replay", "%s_%d.txt" % (pid, int(time.time())))
        # Verus gives no counterexample: look for a concrete input on which the real code disagrees with the numeric oracle
        witness, note = None, ""
        verus_failed = [(o.unit, o.kind, o.name) for o, _ in new_fail if o.unit != "kani"]
        if verus_failed and os.environ.get("VERIF_NO_REPLAY") != "1":
            try:
                import replay as rp
                witness, note = rp.find_witness(pl.REPO, verus_failed, int(os.environ.get("VERIF_SEED", "0") or 0))
            except Exception as e:
                witness, note = None, "replay machinery failed: %r" % (e,)
        with open(replay_path, "w") as f:
            f.write("property %s: failed obligations (Verus produces no counterexample model; Kani harnesses carry the concrete playback values)\n\n" % pid)
            if witness:
                f.write("FAILING INPUT replayed on the real code (binary /verif/replay built against %s):\n" % pl.REPO)
                f.write("  type      : %s\n  operation : %s\n  operands  : %s   (parts in declaration order; None = absent part)\n  scalars   : %s\n" % (witness["type"], witness["function"], witness["operands"], witness["scalars"]))
                f.write("  observed  : %s\n  expected  : %s   (%s)\n" % (witness["observed"], witness["expected"], witness.get("oracle", "independent truncated-Taylor oracle, lib/oracle.py")))
                f.write("  reproduce : echo '%s' | %s\n\n" % (rp.fmt_req(witness["type"], witness["function"], witness["operands"], witness["scalars"]), "<.cache/replay-target*/release/replay>"))
            elif verus_failed:
                f.write("no failing input found by the replay search: %s\n\n" % note)
            for o, _ in new_fail:
                f.write("== obligation %s\n   what: %s\n   verifier output:\n%s\n" % (o.key(), o.what, o.detail))
        only_gated = all(getattr(o, "gated", False) for o, _ in new_fail)
        if only_gated and not witness:
            # every failed obligation is a proof script tied to the operation sequence of a composite body (composition
            # lemma / hinted definedness) and no input distinguishes the real code from the oracle: the script may simply
            # no longer fit a restructured but equivalent body -- undecided, not an alarm
            for o, _ in new_fail[:12]:
                print("UNDECIDED-OBLIGATION property=%s %s :: %s" % (pid, o.key(), o.what))
            print("UNDECIDED property=%s: %d structure-dependent proof obligation(s) failed and no failing input was found (%s); details in %s" % (pid, len(new_fail), note, replay_path))
            for o, _ in new_fail:
                o.status = "undecided"
            undecided = undecided + [o for o, _ in new_fail]
            failed = [o for o in failed if o.status == "failed"]
            new_fail = []
            rc = 2
        for o, _ in new_fail[:12]:
            print("FAILED-OBLIGATION property=%s %s :: %s" % (pid, o.key(), o.what))
        if new_fail:
            if witness or any(getattr(o, "has_cex", False) for o, _ in new_fail):
                print("VIOLATION property=%s replay=%s" % (pid, replay_path))
            else:
                print("VIOLATION property=%s replay=%s no-failing-input-found" % (pid, replay_path))
            rc = 1
    elif undecided:
        # obligations the verifier could not decide (resource limit).  Not a violation by themselves -- but if the replay
        # search finds an input on which the real code disagrees with the independent oracle, the obligation that was
        # discharged on the unchanged tree is now undischarged AND a concrete failing input exists: reported as a violation.
        witness, note = None, ""
        und_verus = [(o.unit, o.kind, o.name) for o in undecided if o.unit != "kani" and o.kind in ("lemma", "definedness", "exec")]
        if und_verus and os.environ.get("VERIF_NO_REPLAY") != "1":
            try:
                import replay as rp
                witness, note = rp.find_witness(pl.REPO, und_verus, int(os.environ.get("VERIF_SEED", "0") or 0))
            except Exception as e:
                witness, note = None, "replay machinery failed: %r" % (e,)
        if witness:
            os.makedirs(os.path.join(pl.GEN, "replay"), exist_ok=True)
            replay_path = os.path.join(pl.GEN, "replay", "%s_%d.txt" % (pid, int(time.time())))
            with open(replay_path, "w") as f:
                f.write("property %s: obligations that the verifier could no longer discharge (resource limit), together with a failing input\n\n" % pid)
                f.write("FAILING INPUT replayed on the real code (binary /verif/replay built against %s):\n" % pl.REPO)
                f.write("  type      : %s\n  operation : %s\n  operands  : %s   (parts in declaration order; None = absent part)\n  scalars   : %s\n" % (witness["type"], witness["function"], witness["operands"], witness["scalars"]))
                f.write("  observed  : %s\n  expected  : %s   (%s)\n" % (witness["observed"], witness["expected"], witness.get("oracle", "independent truncated-Taylor oracle, lib/oracle.py")))
                f.write("  reproduce : echo '%s' | %s\n\n" % (rp.fmt_req(witness["type"], witness["function"], witness["operands"], witness["scalars"]), "<.cache/replay-target*/release/replay>"))
                for o in undecided:
                    f.write("== obligation %s (undischarged)\n   what: %s\n   verifier output:\n%s\n" % (o.key(), o.what, o.detail))
            for o in undecided[:12]:
                print("FAILED-OBLIGATION property=%s %s :: undischarged (resource limit) and a failing input exists :: %s" % (pid, o.key(), o.what))
            print("VIOLATION property=%s replay=%s" % (pid, replay_path))
            for o in undecided:
                if o.unit != "kani":
                    o.status = "failed"
            new_fail = [(o, []) for o in undecided if o.status == "failed"]
            failed = failed + [o for o, _ in new_fail]
            undecided = [o for o in undecided if o.status == "undecided"]
            rc = 1
        else:
            for o in undecided[:12]:
                print("UNDECIDED-OBLIGATION property=%s %s\n%s" % (pid, o.key(), o.detail[:600]))
            rc = 2
    samples = [dict(obligation=o.key(), statement=o.what, status=o.status) for o in (discharged[:4] + discharged[-3:] + failed[:3])]
    cmds = sorted({c for u in info["units"].values() for c in u["cmds"]})
    cov = dict(
        obligations=len(rel),
        discharged=len(discharged),
        failed=len(failed),
        undecided=len(undecided),
        known_findings=len(known_hits),
        checker_cmd=("bin/check %s --tier %s  (= " % (pid, tier))
        + ("cargo +nightly rustc -Zunpretty=expanded; tools/extract; %s ; ..." % " ; ".join(cmds[:3]) if cmds else "")
        + ((" ; " if cmds else "") + kinfo["cmd"] + " = CARGO_NET_OFFLINE=true cargo kani -Z function-contracts -Z stubbing --harness <h> per harness" if kinfo else "") + ")",
        trusted_base=(TRUSTED_BASE if (pid in VERUS_PROPS or pid == "C17") else []) + (KANI_TRUSTED if kinfo else []),
        samples=samples,
        backends=dict(verus="0.2026.09.13.671956e", smt="Z3 bundled with Verus; --smt-option smt.macro_finder=true for mod nl", kani="0.68.0 / CBMC 6.11 (SAT: default minisat/cadical of the bundle)" if kinfo else None),
        functions_under_contract=sum(u["functions_under_contract"] for u in info["units"].values()),
        lemmas=sum(u["lemmas"] for u in info["units"].values()),
        canaries_failed_as_required=sum(u["canaries_failed_as_required"] for u in info["units"].values()),
        units=info["units"],
        kani=kinfo,
        bounded=[r["harness"] + ": " + str(r.get("bound")) for r in (kinfo or {}).get("rows", []) if r.get("bound") and not str(r.get("bound")).startswith("none")],
        explanation=("obligations = " + " + ".join(
            (["exec functions under contract (mirror equality, definedness preconditions, i32 overflow) + flat non-linear / composition lemmas whose property list contains this id"] if info["units"] else [])
            + (["one obligation per Kani harness on the real crate (all CBMC checks of the harness must succeed; bounds listed under 'bounded')"] if kinfo else []))),
        exhaustive=False,
    )
    assumptions = ((TRUSTED_BASE + ["float rounding is not modelled by the Verus route: every 'up to rounding' clause of the property is outside this claim"]) if info["units"] else []) \
        + (KANI_TRUSTED + ["every harness listed under coverage.bounded holds only within its stated bound"] if kinfo else [])
    if pid == "C12":
        # bounded stand-in only (Kani on n = 2 over a dyadic grid + exhaustive native enumeration of the same grid): never "proof"
        assumptions = KANI_TRUSTED + ["BOUNDED: n = 2, entry grid -2..=2, divisions exact by construction; nothing is claimed for inputs that round, for n > 2, for the Jacobi eigen solver or nalgebra's decompositions"]
        write_evidence(pid, tier, "other", cov, assumptions, time.time() - t0, len(new_fail))
    else:
        write_evidence(pid, tier, "proof", cov, assumptions, time.time() - t0, len(new_fail))
    if rc == 0:
        print("OK property=%s obligations=%d discharged=%d known_findings=%d wall=%.0fs" % (pid, len(rel), len(discharged), len(known_hits), time.time() - t0))
    return rc
