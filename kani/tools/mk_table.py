#!/usr/bin/env python3
"""Regenerates kani/harnesses.json from the table below + kani/tools/measured.json
(measured verification times, written by `mk_table.py --record <kani_check output>`)."""
import json, os, sys

HERE = os.path.dirname(os.path.abspath(__file__))
OUT = os.path.join(os.path.dirname(HERE), "harnesses.json")
MEAS = os.path.join(HERE, "measured.json")

NOOVF = "--no-overflow-checks"
FULL = "none (loop-free, full domain: all f64 bit patterns incl. NaN, +-0, inf)"
T = []


def add(module, name, prop, what, bound, tier="quick", expect="pass", flags=""):
    T.append(dict(name=name, module=module, property=prop, what=what, bound=bound, tier=tier,
                  expect_on_unchanged_tree=expect, measured_s=None, flags=flags))


# ------------------------------------------------------------------ C02
GRID = ("BOUNDED GRID: every part an integer in -4..=4 (as f64); divisor real part in "
        "{+-1,+-2,+-4,+-0.5}; loop-free")
for ty, tier_m, tier_d in [("dual64", "quick", "quick"), ("dual2_64", "quick", "thorough"),
                           ("hyperdual64", "quick", "thorough")]:
    add("c02_grid", f"c02_grid_mul_{ty}", "C02",
        f"{ty}: every part of a*b equals the Leibniz formula evaluated in i64", GRID, tier_m)
    add("c02_grid", f"c02_grid_div_{ty}", "C02",
        f"{ty}: (a/b)*b == a exactly, part by part", GRID, tier_d)
add("c02_grid", "c02_grid_mul_dual3_64", "C02",
    "dual3_64: every part of a*b equals the Leibniz formula (binomial weights 1,2,1 / 1,3,3,1) in i64", GRID)
for part, tier in [("re", "quick"), ("v1", "quick"), ("v2", "thorough")]:
    add("c02_grid", f"c02_grid_div_dual3_64_{part}", "C02",
        f"dual3_64: part {part} of (a/b)*b == that part of a exactly", GRID, tier)
add("c02_grid", "c02_grid_div_dual3_64_v3_small", "C02",
    "dual3_64: part v3 of (a/b)*b == a.v3 exactly (full grid: timeout > 2400 s)",
    "BOUNDED GRID (REDUCED): every part an integer in -2..=2; divisor real part in {+-1,+-2,+-0.5}; loop-free",
    "thorough")
add("c02_grid", "c02_grid_mul_hyperhyperdual64", "C02",
    "hyperhyperdual64: all 8 parts of a*b equal the Leibniz formula in i64", GRID, "thorough")
for part in ["re", "eps1", "eps2", "eps3"]:  # 2nd/3rd-order parts: timeout > 2400 s, not covered
    add("c02_grid", f"c02_grid_div_hyperhyperdual64_{part}", "C02",
        f"hyperhyperdual64: part {part} of (a/b)*b == that part of a exactly", GRID, "thorough")

# ------------------------------------------------------------------ C03 (iterator sums / products)
IT = ("BOUNDED: iterator length <= 3 (lengths 0,1,2,3 in one harness); values fully symbolic (all f64 bit patterns, NaN parts "
      "compared as 'both NaN'); kani::unwind(5); solver cvc5")
for ty, ts, tp in [("dual64", "quick", "quick"), ("dual2_64", "quick", "quick"), ("hyperdual64", "quick", "thorough"),
                   ("dual3_64", "quick", "thorough"), ("hyperhyperdual64", "thorough", None)]:
    add("c03_iter", f"c03_iter_sum_{ty}", "C03",
        f"{ty}: iter().sum() and into_iter().sum() == ((zero() + x0) + x1) + x2 in every part; empty iterator gives zero()",
        IT, ts, flags=NOOVF)
    if tp:  # hyperhyperdual64 product: > 10 min, not covered; DualSVec64<2>: not tractable (see c03_iter.rs)
        add("c03_iter", f"c03_iter_product_{ty}", "C03",
            f"{ty}: iter().product() and into_iter().product() == ((one() * x0) * x1) * x2 in every part; empty iterator gives one()",
            IT, tp, flags=NOOVF)

# ------------------------------------------------------------------ C04
add("c04_nderiv", "c04_nderiv_table", "C04",
    "NDERIV == sum of derivative orders over nesting levels for the 10 listed types (+ 5 extra)",
    "none (constants)")

# ------------------------------------------------------------------ C05
UNW = "sizes fixed per harness; nalgebra loops fully unwound (kani::unwind given, unwinding assertions on); inputs full f64 domain"
SC = "none (loop-free, all f64 bit patterns; closure result fully symbolic)"
for n, w in [("c05_first_derivative", "first_derivative/try_first_derivative: seed (x,1), result (re,eps), Err passes, infallible == try_"),
             ("c05_first_derivative_nested", "first_derivative with T = Dual64: seed (x, Dual64::one()), result (re, eps) part-exact"),
             ("c05_second_derivative", "second_derivative/try_: seed (x,1,0), result (re,v1,v2), Err passes, infallible == try_"),
             ("c05_third_derivative", "third_derivative/try_: seed (x,1,0,0), result (re,v1,v2,v3), Err passes, infallible == try_"),
             ("c05_second_partial_derivative", "second_partial_derivative/try_: seeds (x,1,0,0),(y,0,1,0); result (re,eps1,eps2,eps1eps2)"),
             ("c05_third_partial_derivative", "third_partial_derivative/try_: seeds eps1/eps2/eps3 = 1 on x/y/z; result = 8 parts in field order")]:
    add("c05_drivers", n, "C05", w, SC)
for l in (1, 2, 3):
    add("c05_drivers", f"c05_third_partial_derivative_vec_l{l}", "C05",
        f"third_partial_derivative_vec/try_ on a slice of length {l}, symbolic in-range i,j,k (repeats incl.): eps1 on x[i], eps2 on x[j], eps3 on x[k]; result 8 parts in order; Err passes",
        f"BOUNDED: slice length = {l}; " + UNW, "quick" if l < 3 else "thorough")
for n in (0, 1, 2, 3):
    add("c05_drivers", f"c05_gradient_n{n}", "C05",
        f"gradient/try_gradient, static n={n}: x[i].eps = e_i (present), result (re, eps[i]) with absent -> zeros, Err passes, infallible == try_",
        f"static n = {n}; " + UNW, "quick" if n <= 2 else "thorough")
for m in (1, 2, 3):
    for n in (1, 2, 3):
        add("c05_drivers", f"c05_jacobian_m{m}_n{n}", "C05",
            f"jacobian/try_jacobian, {m} outputs, {n} inputs: seed x[i] = (x_i, e_i); result.0[i] = out[i].re, result.1[(i,j)] = out[i].eps[j] (absent -> 0); Err passes; infallible == try_",
            f"static m = {m}, n = {n}; " + UNW,
            "quick" if (m, n) in [(1, 1), (1, 2), (2, 1), (2, 2)] else "thorough")
for n in (1, 2, 3):
    add("c05_drivers", f"c05_hessian_n{n}", "C05",
        f"hessian/try_hessian, static n={n}: x[i].v1 = e_i^T present, v2 absent; result (re, v1^T as column, v2), absent -> zeros; Err passes",
        f"static n = {n}; " + UNW, "quick" if n <= 2 else "thorough")
for m, n in [(1, 1), (2, 1), (1, 2), (2, 2), (3, 2), (2, 3)]:
    add("c05_drivers", f"c05_partial_hessian_m{m}_n{n}", "C05",
        f"partial_hessian/try_, |x|={m}, |y|={n}: x[i].eps1 = e_i, y[j].eps2 = e_j^T, others absent; result (re, eps1, eps2^T, eps1eps2), absent -> zeros; Err passes",
        f"static m = {m}, n = {n}; " + UNW, "quick" if (m, n) in [(1, 1), (1, 2), (2, 1)] else "thorough")
for n in (1, 2, 3):
    add("c05_drivers", f"c05_gradient_dyn_n{n}", "C05",
        f"gradient/try_gradient on DVector (Dyn) of length {n}: seed and result as for static; Err passes (seed inspected inside the closure)",
        f"BOUNDED: dynamic length fixed to {n}; " + UNW, "thorough")
add("c05_drivers", "c05_hessian_dyn_n2", "C05",
    "hessian on DVector (Dyn) of length 2: seed v1 = e_i^T, v2 absent; result (re, v1^T, v2) with returned parts present",
    "BOUNDED: dynamic length fixed to 2; returned v1/v2 present; " + UNW, "thorough")

# ------------------------------------------------------------------ C06
for ty in ["dual64", "dual2_64", "dualsvec64_1", "dualsvec64_2", "dual2svec64_1", "dual2svec64_2"]:
    add("c06_cmp", f"c06_cmp_{ty}", "C06",
        f"{ty}: == != < <= > >= partial_cmp equal the same operator on .re (derivative parts symbolic, absent/present)",
        FULL, "quick")
for ty in ["dual64", "dual2_64", "dual3_64", "hyperdual64", "hyperhyperdual64", "dualsvec64_2",
           "dual2svec64_2", "hyperdualsvec64_2_2"]:
    add("c06_pred", f"c06_pred_{ty}", "C06",
        f"{ty}: is_zero/is_one/is_positive/is_negative equal the float predicates on .re", FULL)
    add("c06_pred", f"c06_abs_signum_{ty}", "C06",
        f"{ty}: Signed::abs = self if re>0 else -self (all parts bit-exact); signum = +-1 with zero/absent parts",
        "loop-free (vector sizes fixed); domain: re not NaN and re != +-0 (ASSUMED), derivative parts all bit patterns",
        "quick")
for ty in ["dual64", "dual2_64", "dualsvec64_2", "dual2svec64_2"]:
    add("c06_pred", f"c06_minmax_clamp_{ty}", "C06",
        f"{ty}: RealField::min/max/clamp return bit-for-bit one operand (all parts) chosen by real parts only",
        "loop-free (vector sizes fixed); real parts not NaN (ASSUMED), everything else all bit patterns",
        "quick")
CVC = "none (loop-free, full f64 domain; NaN results compared as 'both NaN'); solver cvc5 (SAT back ends do not terminate)"
for ty in ["dual64", "dual2_64", "hyperdual64"]:
    add("c06_nonint", f"c06_nonint_{ty}", "C06",
        f"{ty}: (a op b).re for op in + - * / is bit-identical for two independent choices of all derivative parts; equals the f64 op on real parts for + - *",
        CVC, "quick" if ty == "dual64" else "thorough", flags=NOOVF)
add("c06_nonint", "c06_nonint_dual3_64", "C06",
    "dual3_64: (a op b).re for op in + - * independent of derivative parts ('/' separately: SMT back end aborts on Dual3::div)",
    CVC, "thorough", flags=NOOVF)
add("c06_nonint", "c06_nonint_div_dual3_64_grid", "C06",
    "dual3_64: (a/b).re independent of derivative parts",
    "BOUNDED: a.re in -4..=4, b.re in {+-1,+-2,+-4,+-0.5}; derivative parts all f64 bit patterns; loop-free",
    "thorough", flags=NOOVF)
for ty in ["dual64", "dual2_64", "hyperdual64", "dual3_64"]:
    add("c06_nonint", f"c06_nonint_scalar_{ty}", "C06",
        f"{ty}: (a op s).re for scalar s, op in + - * /, independent of derivative parts and equal to a.re op s",
        CVC, "quick" if ty == "dual64" else "thorough", flags=NOOVF)

AP = "loop-free; real parts of operands and tolerances not NaN (ASSUMED), every derivative part (operands and tolerance arguments) all bit patterns"
for ty in ["dual64", "dual2_64"]:
    add("c06_approx", f"c06_approx_absdiff_{ty}", "C06",
        f"{ty}: AbsDiffEq::abs_diff_eq gives the same bool as f64::abs_diff_eq on the real parts, whatever the derivative parts", AP, "quick", flags=NOOVF)
    add("c06_approx", f"c06_approx_ulps_{ty}", "C06",
        f"{ty}: UlpsEq::ulps_eq gives the same bool as f64::ulps_eq on the real parts (max_ulps symbolic)", AP, "quick", flags=NOOVF)
    add("c06_approx", f"c06_approx_relative_{ty}_grid", "C06",
        f"{ty}: RelativeEq::relative_eq gives the same bool as f64::relative_eq on the real parts",
        "BOUNDED: operand real parts integers in -4..=4, tolerance real parts in {0,0.25,0.5,1,2} (full domain does not finish: multiplier equivalence); derivative parts all bit patterns",
        "quick", flags=NOOVF)
add("c06_approx", "c06_approx_defaults", "C06",
    "default_epsilon / default_max_relative / default_max_ulps of Dual64 (and default_epsilon of Dual2_64) are the f64 defaults with zero derivative parts",
    "none (constants)", "quick")
for ty in ["dual64", "hyperdual64"]:
    add("c06_approx", f"c06_from_primitive_{ty}", "C06",
        f"{ty}: FromPrimitive::from_{{i8..i128,u8..u128,isize,usize,f32,f64}} return Some with re == the f64 conversion (bit-exact; NaN -> NaN) and all derivative parts +0.0",
        "none (loop-free, full domain of every primitive type)", "quick", flags=NOOVF)
    T[-1]["also"] = ["C08"]  # FromPrimitive is one of the conversion forms of C08 as well

# ------------------------------------------------------------------ C11
TYS11 = ["dual64", "dual2_64", "dualsvec64_2", "dual2svec64_2", "dual32", "dual2_32", "dualsvec32_2", "dual2svec32_2"]
for ty in TYS11:
    add("c11_field", f"c11_const_{ty}", "C11",
        f"{ty}: 14 RealField constants (all but frac_pi_2) have .re bit-equal to std consts and zero/absent derivative parts (one assertion message per constant)",
        "none (constants)")
    add("c11_field", f"c11_const_frac_pi_2_{ty}", "C11",
        f"{ty}: RealField::frac_pi_2().re is bit-equal to std FRAC_PI_2, parts zero/absent",
        "none (constants)")  # failed before the fix of /repo (frac_pi_2 returned FRAC_PI_4)
for ty in ["dual64", "dual2_64", "dualsvec64_1", "dual2svec64_1", "dualsvec64_2", "dual2svec64_2"]:
    add("c11_field", f"c11_select_{ty}", "C11",
        f"{ty}: ComplexField::abs, copysign return +-x (all parts bit-exact) by sign bits of real parts; min/max/clamp return one operand",
        "loop-free (vector sizes fixed); real parts not NaN (ASSUMED), signed zeros included",
        "quick" if ty != "dual2svec64_2" else "thorough")
    add("c11_field", f"c11_simd_{ty}", "C11",
        f"{ty}: SimdValue LANES==1: splat/extract(0) identity incl. absent parts; replace(0,y) then extract(0) == y (absent == zeros); select(true/false) picks a/b exactly",
        "none (loop-free over fixed sizes, all bit patterns, derivative groups symbolically absent)",
        "quick" if ty != "dual2svec64_2" else "thorough")

# ------------------------------------------------------------------ C12 (bounded stand-in)
LIN = "--features linalg"
G12 = "BOUNDED: n = 2; Dual64 entries with re and eps integers in -2..=2; first pivot in {+-1,+-2} (implied by the grid)"
P2 = "; ASSUMED: |det(A.re)| in {1,2,4,8} (second pivot a power of two, every division exact)"
RE = "; SLICE: all real parts symbolic, all eps parts == 0"
EPS = "; SLICE: real parts = one concrete table matrix (t1: row exchange, pivot 2, det -2; t3: no exchange, pivot -2, det 2), all eps parts symbolic"
add("c12_linalg", "c12_lu_singular_n2", "C12",
    "LU::new(A) is Err <=> det(A.re) == 0 (all candidate pivots zero at some step); on Ok determinant().re != 0 and finite; 4 cover goals (both singular causes, both pivot paths)",
    G12 + "; all 8 parts symbolic", "thorough", flags=LIN)
add("c12_linalg", "c12_lu_singular_col0_fulldomain_n2", "C12",
    "all f64 bit patterns: column 0 without an entry with |re| > 0 (zeros/NaN) => Err; Ok => some column-0 entry has |re| > 0",
    "n = 2; full f64 domain for all 8 parts; only the first elimination step's comparison logic is characterised", "quick",
    flags=LIN + " " + NOOVF)
add("c12_linalg", "c12_lu_det_exact_n2", "C12",
    "determinant() == a00*a11 - a01*a10 exactly: re, and eps = Jacobi's formula; sign correct with and without row exchange (both covered)",
    G12 + "; all 8 parts symbolic; no further assumption", "thorough", flags=LIN)
add("c12_linalg", "c12_lu_det_exact_n2_re", "C12",
    "determinant exact (as above), eps stays 0", G12 + RE, "quick", flags=LIN)
for t in (1, 3):
    add("c12_linalg", f"c12_lu_det_exact_n2_eps_t{t}", "C12",
        "determinant().eps == Jacobi's formula exactly (and re exact)", G12 + EPS, "quick", flags=LIN)
add("c12_linalg", "c12_lu_solve_exact_n2_re", "C12",
    "x = solve(b) equals the exact solution adj(A) b / det(A) (<=> A x == b exactly), real parts; eps stays 0; both pivot paths covered",
    G12 + P2 + RE + "; b.re in -2..=2", "thorough", flags=LIN)
for t in (1, 3):
    add("c12_linalg", f"c12_lu_solve_exact_n2_eps_t{t}", "C12",
        "x = solve(b) equals adj(A) b / det(A) exactly in re AND eps (dual quotient rule; <=> A x == b)",
        G12 + EPS + "; b.eps symbolic", "thorough", flags=LIN)
# LU::inverse is not tractable in Kani (> 35 GB / 20 min per harness): native exhaustive tests
NAT = "BOUNDED/TEST (native exhaustive enumeration, NOT a Kani proof): n = 2; all 5^8 matrices with re, eps integers in -2..=2"
T.append(dict(name="c12_native_inverse_exhaustive_n2", module="c12_native", property="C12", kind="native",
              what="for every grid matrix: singular real part <=> Err; determinant exact (re, eps); if |det(A.re)| in {1,2,4,8}: A*inverse() == I and inverse()*A == I exactly (re 1/0, eps 0); both pivot paths counted",
              bound=NAT, tier="quick", expect_on_unchanged_tree="pass", measured_s=None, flags=LIN))
T.append(dict(name="c12_native_solve_exhaustive_n2", module="c12_native", property="C12", kind="native",
              what="for every grid matrix with |det(A.re)| in {1,2,4,8} and 100 right-hand sides (re in -2..=2, eps in {-1,2}): A * solve(b) == b exactly in re and eps (all parts varying together)",
              bound=NAT, tier="quick", expect_on_unchanged_tree="pass", measured_s=None, flags=LIN))
NAT3 = ("BOUNDED/TEST (native exhaustive enumeration, NOT a Kani proof): n = 3; ALL real-part matrices over the grid, each with 3 fixed "
        "non-symmetric integer eps patterns (one with 9 distinct entries) and 3 integer right-hand sides; exactness asserted only where an "
        "independent rational elimination (same pivot rule) finds every pivot real part to be +- a power of two")
for gname, gdesc in [("grid1", "entries in {-1,0,1}: 19 683 matrices, 11 232 kept"), ("grid2", "entries in -2..=2: 1 953 125 matrices, 768 800 kept")]:
    T.append(dict(name=f"c12_native_lu_exhaustive_n3_{gname}", module="c12_native", property="C12", kind="native",
                  what="n = 3: (1) singular <=> Err; (2) determinant() == integer cofactor determinant in re and eps (Jacobi), every row-exchange pattern exercised; (3) A*solve(b) == b exactly; (4) A*inverse() == I and inverse()*A == I exactly; counts reported as evidence",
                  bound=NAT3 + "; " + gdesc, tier="quick", expect_on_unchanged_tree="pass", measured_s=None, flags=LIN))

# ------------------------------------------------------------------ C13
NANB = "fixed sizes; all bit patterns, NaN parts compared as 'NaN maps to NaN'"
FAM = [("dual", "quick"), ("dual2", "quick"), ("dualsvec_1", "quick"), ("dualsvec_2", "quick"),
       ("dual2svec_1", "thorough"), ("dual2svec_2", "thorough")]
for ty, tier in FAM:
    add("c13_convert", f"c13_widen_{ty}", "C13",
        f"{ty}: f32->f64 to_superset is the exact `as` cast per part (absent stays absent); from_superset_unchecked / to_subset_unchecked give x back. All default memory-safety checks on (map_borrowed loops)",
        NANB, tier)
    add("c13_convert", f"c13_narrow_{ty}", "C13",
        f"{ty}: f64->f32 to_superset is the `as` cast per part, absent stays absent",
        NANB, "quick" if ty == "dual2svec_2" else tier, flags=NOOVF)  # the only quick harness with a multi-column part (1xD, DxD, D = 2)
    add("c13_convert", f"c13_identity_{ty}", "C13",
        f"{ty}: f64->f64 and f32->f32 conversions are the identity (to_superset, from_superset_unchecked, to_subset_unchecked)",
        NANB, "thorough" if tier == "thorough" or ty == "dualsvec_1" else "quick")
    add("c13_convert", f"c13_floats_{ty}", "C13",
        f"{ty}: SupersetOf<f64>/<f32>: from_subset(f) = constant (parts zero), to_subset_unchecked = real part, is_in_subset true, to_subset agrees",
        NANB, tier, flags=NOOVF)
DYN = "BOUNDED: Dyn storage with derivative length fixed to 2 (or absent); loops unwound (kani::unwind(4)); all bit patterns"
add("c13_convert", "c13_widen_dualdvec_n2_present", "C13",
    "DualDVec (heap, run-time dims), eps present: f32->f64 to_superset exact per part; from_superset_unchecked gives x back; default memory-safety checks on the unsafe map_borrowed loops",
    DYN, "thorough")
add("c13_convert", "c13_widen_dualdvec_absent", "C13",
    "DualDVec, eps absent: to_superset / from_superset_unchecked keep it absent, re exact",
    DYN, "thorough")
add("c13_convert", "c13_from_superset_down_dualdvec_n2_present", "C13",
    "DualDVec f64->f32, eps present: from_superset(y).is_some() == is_in_subset(y); parts are the `as` cast (try_map_borrowed with run-time dims)",
    DYN, "thorough", flags=NOOVF)
add("c13_convert", "c13_from_superset_down_dualdvec_absent", "C13",
    "DualDVec f64->f32, eps absent: from_superset(y).is_some() == is_in_subset(y); absent stays absent",
    DYN, "thorough", flags=NOOVF)
D0 = "dimension 0 (static Const<0> resp. Dyn length 0); real part all bit patterns (NaN -> NaN); kani::unwind(9) static / (3) Dyn, unwinding assertions on"
for ty in ["dualsvec", "dual2svec"]:
    add("c13_convert", f"c13_dim0_{ty}_present", "C13",
        f"{ty}<0>, derivative PRESENT but empty: is_in_subset(y) == from_superset(y).is_some() == true; from_superset/to_superset/round trip keep presence (f64->f64, f32->f32, f32<->f64)",
        D0, "quick")
    add("c13_convert", f"c13_dim0_{ty}_absent", "C13",
        f"{ty}<0>, derivative symbolically absent OR present-but-empty: is_in_subset(y) == from_superset(y).is_some() == true; presence kept",
        D0, "quick")
    add("c13_convert", f"c13_dim0_down_{ty}_present", "C13",
        f"{ty}<0>, derivative PRESENT but empty, f64 flavour as subset of the f32 flavour: is_in_subset == is_some == true; presence kept",
        D0, "quick", flags=NOOVF)
for pr in ["present", "absent"]:
    add("c13_convert", f"c13_dim0_dualdvec_{pr}", "C13",
        f"DualDVec with run-time length 0, eps {pr}: is_in_subset(y) == from_superset(y).is_some() == true; presence and length kept; f32->f64->f32 round trip",
        "BOUNDED: " + D0, "quick")
add("c13_convert", "c13_floats_absent_dualsvec_2", "C13",
    "DualSVec: from_subset(float) has *absent* eps", "none", "quick")
add("c13_convert", "c13_floats_absent_dual2svec_2", "C13",
    "Dual2SVec: from_subset(float) has *absent* v1, v2", "none", "quick")
for ty, suffix, expect, tier in [("dual", "", "pass", "quick"), ("dual2", "", "pass", "quick"),
                                 ("dualsvec_2", "_present", "pass", "quick"), ("dual2svec_2", "_present", "pass", "thorough"),
                                 # the *_absent harnesses failed before the fix of /repo (try_map_borrowed
                                 # returned None for an absent derivative while is_in_subset said true)
                                 ("dualsvec_1", "_absent", "pass", "quick"), ("dual2svec_1", "_absent", "pass", "quick"),
                                 ("dualsvec_2", "_absent", "pass", "quick"), ("dual2svec_2", "_absent", "pass", "thorough")]:
    dom = {"": "all parts symbolic", "_present": "derivative groups PRESENT (assumed)", "_absent": "derivative groups symbolically absent/present"}[suffix]
    for d, what, fl in [("down", "f64->f32", NOOVF), ("same", "f64->f64 and f32->f32 (+ checked round trip)", ""),
                        ("up", "f32->f64 (+ checked round trip f32->f64->f32)", NOOVF)]:
        add("c13_convert", f"c13_from_superset_{d}_{ty}{suffix}", "C13",
            f"{ty} {what}: from_superset(y).is_some() == is_in_subset(y); when Some every part is the `as` cast; from_superset_unchecked likewise",
            NANB + "; " + dom, tier if d == "same" or tier == "thorough" else tier, expect, fl)

# ------------------------------------------------------------------ C16
SER = "none on values (all bit patterns); loops over tokens/field names bounded by kani::unwind(17), unwinding assertions on"
for ty in ["dual64", "dual32", "dual2_64", "dual3_64", "hyperdual64", "hyperhyperdual64", "nested_dual2_dual64"]:
    add("c16_serde", f"c16_serde_{ty}", "C16",
        f"{ty}: token list is exactly StructBegin(name,#fields), (Field, value)* in documented order, StructEnd; deserialize restores every part bit-for-bit and consumes all tokens",
        SER, "quick", flags="--features serde")

# ------------------------------------------------------------------ output
def main():
    meas = {}
    if os.path.exists(MEAS):
        meas = json.load(open(MEAS))
    if len(sys.argv) >= 3 and sys.argv[1] == "--record":
        for path in sys.argv[2:]:
            for line in open(path):
                line = line.strip()
                if not line.startswith("{"):
                    continue
                r = json.loads(line)
                if "harness" in r and r["status"] in ("pass", "fail"):
                    meas[r["harness"]] = r["time_s"]
        json.dump(meas, open(MEAS, "w"), indent=0, sort_keys=True)
    names = set()
    for h in T:
        assert h["name"] not in names, h["name"]
        names.add(h["name"])
        h["measured_s"] = meas.get(h["name"])
    with open(OUT, "w") as f:
        f.write("[\n" + ",\n".join(" " + json.dumps(h) for h in T) + "\n]\n")
    print(len(T), "harnesses;", sum(1 for h in T if h["tier"] == "quick"), "quick;",
          sum(1 for h in T if h["measured_s"] is None), "without measured time")


main()
