//! C04: `NDERIV` is the sum of the derivative orders over all nesting levels.
use num_dual::*;

// Compile-time part: if any of these is wrong the harness crate does not build at all
// (reported as "undecided/compile error" by the runner), so the same facts are asserted
// at verification time below to obtain a proper failed check.
#[kani::proof]
fn c04_nderiv_table() {
    assert!(<Dual64 as DualNum<f64>>::NDERIV == 1, "NDERIV Dual64 == 1");
    assert!(<Dual2_64 as DualNum<f64>>::NDERIV == 2, "NDERIV Dual2_64 == 2");
    assert!(<Dual3_64 as DualNum<f64>>::NDERIV == 3, "NDERIV Dual3_64 == 3");
    assert!(<HyperDual64 as DualNum<f64>>::NDERIV == 2, "NDERIV HyperDual64 == 2");
    assert!(<HyperHyperDual64 as DualNum<f64>>::NDERIV == 3, "NDERIV HyperHyperDual64 == 3");
    assert!(<Dual<Dual64, f64> as DualNum<f64>>::NDERIV == 2, "NDERIV Dual<Dual64> == 2");
    assert!(<Dual2<Dual64, f64> as DualNum<f64>>::NDERIV == 3, "NDERIV Dual2<Dual64> == 3");
    assert!(
        <Dual<Dual<Dual64, f64>, f64> as DualNum<f64>>::NDERIV == 3,
        "NDERIV Dual<Dual<Dual64>> == 3"
    );
    assert!(<Dual3<Dual64, f64> as DualNum<f64>>::NDERIV == 4, "NDERIV Dual3<Dual64> == 4");
    assert!(<HyperDual<Dual64, f64> as DualNum<f64>>::NDERIV == 3, "NDERIV HyperDual<Dual64> == 3");
    // vector types and f32 flavours (extra)
    assert!(<DualSVec64<2> as DualNum<f64>>::NDERIV == 1, "NDERIV DualSVec64<2> == 1");
    assert!(<Dual2SVec64<2> as DualNum<f64>>::NDERIV == 2, "NDERIV Dual2SVec64<2> == 2");
    assert!(<HyperDualSVec64<2, 1> as DualNum<f64>>::NDERIV == 2, "NDERIV HyperDualSVec64<2,1> == 2");
    assert!(<Dual32 as DualNum<f32>>::NDERIV == 1, "NDERIV Dual32 == 1");
    assert!(<f64 as DualNum<f64>>::NDERIV == 0, "NDERIV f64 == 0");
}
