//! Shared helpers: symbolic constructors and bit-exact comparisons.
use nalgebra::{Const, Dim, SMatrix, U1};
use num_dual::*;

#[inline(always)]
pub fn b64(x: f64) -> u64 {
    x.to_bits()
}
#[inline(always)]
pub fn b32(x: f32) -> u32 {
    x.to_bits()
}

pub fn any_dual64() -> Dual64 {
    Dual64::new(kani::any(), kani::any())
}
pub fn any_dual2_64() -> Dual2_64 {
    Dual2_64::new(kani::any(), kani::any(), kani::any())
}
pub fn any_dual3_64() -> Dual3_64 {
    Dual3_64::new(kani::any(), kani::any(), kani::any(), kani::any())
}
pub fn any_hyperdual64() -> HyperDual64 {
    HyperDual64::new(kani::any(), kani::any(), kani::any(), kani::any())
}
pub fn any_hyperhyperdual64() -> HyperHyperDual64 {
    HyperHyperDual64::new(
        kani::any(),
        kani::any(),
        kani::any(),
        kani::any(),
        kani::any(),
        kani::any(),
        kani::any(),
        kani::any(),
    )
}

/// Symbolic static matrix (every entry an arbitrary f64 bit pattern).
pub fn any_smatrix<const R: usize, const C: usize>() -> SMatrix<f64, R, C> {
    let a: [[f64; R]; C] = kani::any();
    SMatrix::from_data(nalgebra::ArrayStorage(a))
}
pub fn any_smatrix32<const R: usize, const C: usize>() -> SMatrix<f32, R, C> {
    let a: [[f32; R]; C] = kani::any();
    SMatrix::from_data(nalgebra::ArrayStorage(a))
}

/// Symbolic derivative: symbolically absent or present with arbitrary entries.
pub fn any_deriv<const R: usize, const C: usize>() -> Derivative<f64, f64, Const<R>, Const<C>> {
    if kani::any() {
        Derivative::some(any_smatrix::<R, C>())
    } else {
        Derivative::none()
    }
}
pub fn any_deriv32<const R: usize, const C: usize>() -> Derivative<f32, f32, Const<R>, Const<C>> {
    if kani::any() {
        Derivative::some(any_smatrix32::<R, C>())
    } else {
        Derivative::none()
    }
}

pub fn any_dualsvec64<const N: usize>() -> DualSVec64<N> {
    DualSVec64::new(kani::any(), any_deriv::<N, 1>())
}
pub fn any_dual2svec64<const N: usize>() -> Dual2SVec64<N> {
    Dual2SVec64::new(kani::any(), any_deriv::<1, N>(), any_deriv::<N, N>())
}
pub fn any_hyperdualsvec64<const M: usize, const N: usize>() -> HyperDualSVec64<M, N> {
    HyperDualSVec64::new(
        kani::any(),
        any_deriv::<M, 1>(),
        any_deriv::<1, N>(),
        any_deriv::<M, N>(),
    )
}

/// `true` iff the derivative is absent (`Derivative::none()`); uses only the public API
/// (derived `PartialEq` on the wrapped `Option`: `Some(_) == None` is `false` without
/// looking at the entries).
pub fn is_absent<const R: usize, const C: usize>(
    d: &Derivative<f64, f64, Const<R>, Const<C>>,
) -> bool {
    *d == Derivative::none()
}
pub fn is_absent32<const R: usize, const C: usize>(
    d: &Derivative<f32, f32, Const<R>, Const<C>>,
) -> bool {
    *d == Derivative::none()
}

/// Entries of a derivative as a plain array `[col][row]` (zeros when absent).
pub fn entries<const R: usize, const C: usize>(
    d: &Derivative<f64, f64, Const<R>, Const<C>>,
) -> [[f64; R]; C] {
    d.clone().unwrap_generic(Const::<R>, Const::<C>).data.0
}
pub fn entries32<const R: usize, const C: usize>(
    d: &Derivative<f32, f32, Const<R>, Const<C>>,
) -> [[f32; R]; C] {
    d.clone().unwrap_generic(Const::<R>, Const::<C>).data.0
}

/// Bit-exact equality of two derivatives, including the absent/present distinction.
pub fn deriv_same<const R: usize, const C: usize>(
    a: &Derivative<f64, f64, Const<R>, Const<C>>,
    b: &Derivative<f64, f64, Const<R>, Const<C>>,
) -> bool {
    if is_absent(a) != is_absent(b) {
        return false;
    }
    let (ea, eb) = (entries(a), entries(b));
    let mut ok = true;
    let mut j = 0;
    while j < C {
        let mut i = 0;
        while i < R {
            ok &= b64(ea[j][i]) == b64(eb[j][i]);
            i += 1;
        }
        j += 1;
    }
    ok
}

/// Bit-exact: `a` equals `-b` entrywise (absent stays absent).
pub fn deriv_is_neg<const R: usize, const C: usize>(
    a: &Derivative<f64, f64, Const<R>, Const<C>>,
    b: &Derivative<f64, f64, Const<R>, Const<C>>,
) -> bool {
    if is_absent(a) != is_absent(b) {
        return false;
    }
    if is_absent(a) {
        return true; // -absent == absent
    }
    let (ea, eb) = (entries(a), entries(b));
    let mut ok = true;
    let mut j = 0;
    while j < C {
        let mut i = 0;
        while i < R {
            ok &= b64(ea[j][i]) == b64(-eb[j][i]);
            i += 1;
        }
        j += 1;
    }
    ok
}
