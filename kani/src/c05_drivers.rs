//! C05: the derivative drivers seed, extract and orient correctly -- "universal probe".
//!
//! The closure handed to a driver (a) stores the argument(s) it receives in a captured
//! variable and (b) returns an *arbitrary symbolic* dual number (every part `kani::any()`,
//! derivative groups of vector types symbolically absent) or, for the try_ variants, a
//! symbolic `Err(e)`.  Since the closure's result is unconstrained, the assertions hold for
//! every function a user could pass.  Checked:
//!   (i)   the captured argument is exactly the documented seed (bit-for-bit);
//!   (ii)  the driver's result is the documented rearrangement of the returned parts
//!         (bit-for-bit; an absent derivative group comes back as +0.0 entries);
//!   (iii) `Err(e)` passes through unchanged; the infallible driver gives the same result and
//!         the same seed as the try_ driver.
//! Inputs are arbitrary f64 bit patterns (NaN, +-0, inf included).
//! Sizes are compile-time constants per harness; nalgebra's loops over them are fully
//! unwound (`#[kani::unwind]` given per harness, unwinding assertions ON).
use crate::util::*;
use nalgebra::{Const, DVector, Dyn, SMatrix, SVector, U1};
use num_dual::*;

type E = u32;
const ONE: u64 = 0x3FF0_0000_0000_0000;

/// present, and the bit-exact unit vector e_i (length N stored as column)
fn is_unit_col<const N: usize>(d: &Derivative<f64, f64, Const<N>, U1>, i: usize) -> bool {
    if is_absent(d) {
        return false;
    }
    let e = entries(d);
    let mut ok = true;
    let mut k = 0;
    while k < N {
        ok &= b64(e[0][k]) == if k == i { ONE } else { 0 };
        k += 1;
    }
    ok
}
/// present, and the bit-exact unit vector e_i (length N stored as row)
fn is_unit_row<const N: usize>(d: &Derivative<f64, f64, U1, Const<N>>, i: usize) -> bool {
    if is_absent(d) {
        return false;
    }
    let e = entries(d);
    let mut ok = true;
    let mut k = 0;
    while k < N {
        ok &= b64(e[k][0]) == if k == i { ONE } else { 0 };
        k += 1;
    }
    ok
}
/// matrix equals the entries of the derivative (zeros when absent), bit-for-bit
fn mat_is<const R: usize, const C: usize>(
    m: &SMatrix<f64, R, C>,
    d: &Derivative<f64, f64, Const<R>, Const<C>>,
) -> bool {
    let e = entries(d);
    let mut ok = true;
    let mut j = 0;
    while j < C {
        let mut i = 0;
        while i < R {
            ok &= b64(m.data.0[j][i]) == b64(e[j][i]);
            i += 1;
        }
        j += 1;
    }
    ok
}
/// column vector equals the transposed row derivative (zeros when absent), bit-for-bit
fn col_is_row_t<const N: usize>(
    m: &SVector<f64, N>,
    d: &Derivative<f64, f64, U1, Const<N>>,
) -> bool {
    let e = entries(d);
    let mut ok = true;
    let mut k = 0;
    while k < N {
        ok &= b64(m.data.0[0][k]) == b64(e[k][0]);
        k += 1;
    }
    ok
}
fn mat_same<const R: usize, const C: usize>(a: &SMatrix<f64, R, C>, b: &SMatrix<f64, R, C>) -> bool {
    let mut ok = true;
    let mut j = 0;
    while j < C {
        let mut i = 0;
        while i < R {
            ok &= b64(a.data.0[j][i]) == b64(b.data.0[j][i]);
            i += 1;
        }
        j += 1;
    }
    ok
}

// ===================================================================== scalar drivers
/// first_derivative / try_first_derivative, T = f64
#[kani::proof]
fn c05_first_derivative() {
    let x: f64 = kani::any();
    let out = any_dual64();
    let (fail, err): (bool, E) = (kani::any(), kani::any());
    let mut seen: Option<Dual64> = None;
    let r = try_first_derivative(
        |d: Dual64| {
            seen = Some(d);
            if fail { Err(err) } else { Ok(out) }
        },
        x,
    );
    match seen {
        Some(d) => {
            assert!(b64(d.re) == b64(x), "first_derivative seed: re is the input, bit-for-bit");
            assert!(b64(d.eps) == ONE, "first_derivative seed: eps == 1.0");
        }
        None => assert!(false, "first_derivative: closure is called"),
    }
    match r {
        Ok((f, df)) => {
            assert!(!fail, "try_first_derivative: Ok only if the closure returned Ok");
            assert!(b64(f) == b64(out.re), "first_derivative result.0 == out.re");
            assert!(b64(df) == b64(out.eps), "first_derivative result.1 == out.eps");
        }
        Err(e) => assert!(fail && e == err, "try_first_derivative: Err(e) passes through unchanged"),
    }
    // infallible variant
    let mut seen2: Option<Dual64> = None;
    let (f, df) = first_derivative(
        |d: Dual64| {
            seen2 = Some(d);
            out
        },
        x,
    );
    assert!(b64(f) == b64(out.re) && b64(df) == b64(out.eps), "first_derivative (infallible) == (out.re, out.eps)");
    match (seen, seen2) {
        (Some(a), Some(b)) => assert!(b64(a.re) == b64(b.re) && b64(a.eps) == b64(b.eps), "first_derivative: same seed as try_ variant"),
        _ => assert!(false, "first_derivative: closure is called"),
    }
}

/// first_derivative with a dual-number argument (nesting): T = Dual64
#[kani::proof]
fn c05_first_derivative_nested() {
    let x = any_dual64();
    let out: Dual<Dual64, f64> = Dual::new(any_dual64(), any_dual64());
    let mut seen: Option<Dual<Dual64, f64>> = None;
    let (f, df) = first_derivative(
        |d: Dual<Dual64, f64>| {
            seen = Some(d);
            out
        },
        x,
    );
    match seen {
        Some(d) => {
            assert!(b64(d.re.re) == b64(x.re) && b64(d.re.eps) == b64(x.eps), "nested seed: re is the input (both parts)");
            assert!(b64(d.eps.re) == ONE && b64(d.eps.eps) == 0, "nested seed: eps == Dual64::one() == (1.0, +0.0)");
        }
        None => assert!(false, "closure is called"),
    }
    assert!(b64(f.re) == b64(out.re.re) && b64(f.eps) == b64(out.re.eps), "nested result.0 == out.re");
    assert!(b64(df.re) == b64(out.eps.re) && b64(df.eps) == b64(out.eps.eps), "nested result.1 == out.eps");
}

#[kani::proof]
fn c05_second_derivative() {
    let x: f64 = kani::any();
    let out = any_dual2_64();
    let (fail, err): (bool, E) = (kani::any(), kani::any());
    let mut seen: Option<Dual2_64> = None;
    let r = try_second_derivative(
        |d: Dual2_64| {
            seen = Some(d);
            if fail { Err(err) } else { Ok(out) }
        },
        x,
    );
    match seen {
        Some(d) => {
            assert!(b64(d.re) == b64(x), "second_derivative seed: re is the input");
            assert!(b64(d.v1) == ONE, "second_derivative seed: v1 == 1.0");
            assert!(b64(d.v2) == 0, "second_derivative seed: v2 == +0.0");
        }
        None => assert!(false, "closure is called"),
    }
    match r {
        Ok((f, d1, d2)) => {
            assert!(!fail, "try_second_derivative: Ok only if closure Ok");
            assert!(b64(f) == b64(out.re), "second_derivative result.0 == out.re");
            assert!(b64(d1) == b64(out.v1), "second_derivative result.1 == out.v1");
            assert!(b64(d2) == b64(out.v2), "second_derivative result.2 == out.v2");
        }
        Err(e) => assert!(fail && e == err, "try_second_derivative: Err(e) passes through"),
    }
    let mut seen2: Option<Dual2_64> = None;
    let (f, d1, d2) = second_derivative(
        |d: Dual2_64| {
            seen2 = Some(d);
            out
        },
        x,
    );
    assert!(b64(f) == b64(out.re) && b64(d1) == b64(out.v1) && b64(d2) == b64(out.v2), "second_derivative (infallible) == (re, v1, v2)");
    match (seen, seen2) {
        (Some(a), Some(b)) => assert!(b64(a.re) == b64(b.re) && b64(a.v1) == b64(b.v1) && b64(a.v2) == b64(b.v2), "second_derivative: same seed as try_ variant"),
        _ => assert!(false, "closure is called"),
    }
}

#[kani::proof]
fn c05_third_derivative() {
    let x: f64 = kani::any();
    let out = any_dual3_64();
    let (fail, err): (bool, E) = (kani::any(), kani::any());
    let mut seen: Option<Dual3_64> = None;
    let r = try_third_derivative(
        |d: Dual3_64| {
            seen = Some(d);
            if fail { Err(err) } else { Ok(out) }
        },
        x,
    );
    match seen {
        Some(d) => {
            assert!(b64(d.re) == b64(x), "third_derivative seed: re is the input");
            assert!(b64(d.v1) == ONE, "third_derivative seed: v1 == 1.0");
            assert!(b64(d.v2) == 0 && b64(d.v3) == 0, "third_derivative seed: v2 == v3 == +0.0");
        }
        None => assert!(false, "closure is called"),
    }
    match r {
        Ok((f, d1, d2, d3)) => {
            assert!(!fail, "try_third_derivative: Ok only if closure Ok");
            assert!(b64(f) == b64(out.re), "third_derivative result.0 == out.re");
            assert!(b64(d1) == b64(out.v1), "third_derivative result.1 == out.v1");
            assert!(b64(d2) == b64(out.v2), "third_derivative result.2 == out.v2");
            assert!(b64(d3) == b64(out.v3), "third_derivative result.3 == out.v3");
        }
        Err(e) => assert!(fail && e == err, "try_third_derivative: Err(e) passes through"),
    }
    let mut seen2: Option<Dual3_64> = None;
    let (f, d1, d2, d3) = third_derivative(
        |d: Dual3_64| {
            seen2 = Some(d);
            out
        },
        x,
    );
    assert!(
        b64(f) == b64(out.re) && b64(d1) == b64(out.v1) && b64(d2) == b64(out.v2) && b64(d3) == b64(out.v3),
        "third_derivative (infallible) == (re, v1, v2, v3)"
    );
    match (seen, seen2) {
        (Some(a), Some(b)) => assert!(
            b64(a.re) == b64(b.re) && b64(a.v1) == b64(b.v1) && b64(a.v2) == b64(b.v2) && b64(a.v3) == b64(b.v3),
            "third_derivative: same seed as try_ variant"
        ),
        _ => assert!(false, "closure is called"),
    }
}

/// loop-free array comparisons (slice/array `==` would go through memcmp's byte loop)
fn eq4(a: [u64; 4], b: [u64; 4]) -> bool {
    a[0] == b[0] && a[1] == b[1] && a[2] == b[2] && a[3] == b[3]
}
fn eq8(a: [u64; 8], b: [u64; 8]) -> bool {
    a[0] == b[0] && a[1] == b[1] && a[2] == b[2] && a[3] == b[3] && a[4] == b[4] && a[5] == b[5] && a[6] == b[6] && a[7] == b[7]
}
fn hd_bits(h: &HyperDual64) -> [u64; 4] {
    [b64(h.re), b64(h.eps1), b64(h.eps2), b64(h.eps1eps2)]
}
#[kani::proof]
fn c05_second_partial_derivative() {
    let (x, y): (f64, f64) = (kani::any(), kani::any());
    let out = any_hyperdual64();
    let (fail, err): (bool, E) = (kani::any(), kani::any());
    let mut seen: Option<(HyperDual64, HyperDual64)> = None;
    let r = try_second_partial_derivative(
        |a: HyperDual64, b: HyperDual64| {
            seen = Some((a, b));
            if fail { Err(err) } else { Ok(out) }
        },
        x,
        y,
    );
    match seen {
        Some((a, b)) => {
            assert!(eq4(hd_bits(&a), [b64(x), ONE, 0, 0]), "second_partial_derivative seed x: (x, 1, 0, 0)");
            assert!(eq4(hd_bits(&b), [b64(y), 0, ONE, 0]), "second_partial_derivative seed y: (y, 0, 1, 0)");
        }
        None => assert!(false, "closure is called"),
    }
    match r {
        Ok((f, fx, fy, fxy)) => {
            assert!(!fail, "try_second_partial_derivative: Ok only if closure Ok");
            assert!(b64(f) == b64(out.re), "second_partial_derivative result.0 == out.re");
            assert!(b64(fx) == b64(out.eps1), "second_partial_derivative result.1 == out.eps1");
            assert!(b64(fy) == b64(out.eps2), "second_partial_derivative result.2 == out.eps2");
            assert!(b64(fxy) == b64(out.eps1eps2), "second_partial_derivative result.3 == out.eps1eps2");
        }
        Err(e) => assert!(fail && e == err, "try_second_partial_derivative: Err(e) passes through"),
    }
    let mut seen2: Option<(HyperDual64, HyperDual64)> = None;
    let t = second_partial_derivative(
        |a: HyperDual64, b: HyperDual64| {
            seen2 = Some((a, b));
            out
        },
        x,
        y,
    );
    assert!(eq4([b64(t.0), b64(t.1), b64(t.2), b64(t.3)], hd_bits(&out)), "second_partial_derivative (infallible) == (re, eps1, eps2, eps1eps2)");
    match (seen, seen2) {
        (Some(a), Some(b)) => assert!(eq4(hd_bits(&a.0), hd_bits(&b.0)) && eq4(hd_bits(&a.1), hd_bits(&b.1)), "second_partial_derivative: same seeds as try_ variant"),
        _ => assert!(false, "closure is called"),
    }
}

fn hhd_bits(h: &HyperHyperDual64) -> [u64; 8] {
    [
        b64(h.re),
        b64(h.eps1),
        b64(h.eps2),
        b64(h.eps3),
        b64(h.eps1eps2),
        b64(h.eps1eps3),
        b64(h.eps2eps3),
        b64(h.eps1eps2eps3),
    ]
}
fn tuple8_bits(t: &(f64, f64, f64, f64, f64, f64, f64, f64)) -> [u64; 8] {
    [b64(t.0), b64(t.1), b64(t.2), b64(t.3), b64(t.4), b64(t.5), b64(t.6), b64(t.7)]
}
#[kani::proof]
fn c05_third_partial_derivative() {
    let (x, y, z): (f64, f64, f64) = (kani::any(), kani::any(), kani::any());
    let out = any_hyperhyperdual64();
    let (fail, err): (bool, E) = (kani::any(), kani::any());
    let mut seen: Option<[HyperHyperDual64; 3]> = None;
    let r = try_third_partial_derivative(
        |a: HyperHyperDual64, b: HyperHyperDual64, c: HyperHyperDual64| {
            seen = Some([a, b, c]);
            if fail { Err(err) } else { Ok(out) }
        },
        x,
        y,
        z,
    );
    match seen {
        Some(s) => {
            assert!(eq8(hhd_bits(&s[0]), [b64(x), ONE, 0, 0, 0, 0, 0, 0]), "third_partial_derivative seed x: eps1 = 1, rest 0");
            assert!(eq8(hhd_bits(&s[1]), [b64(y), 0, ONE, 0, 0, 0, 0, 0]), "third_partial_derivative seed y: eps2 = 1, rest 0");
            assert!(eq8(hhd_bits(&s[2]), [b64(z), 0, 0, ONE, 0, 0, 0, 0]), "third_partial_derivative seed z: eps3 = 1, rest 0");
        }
        None => assert!(false, "closure is called"),
    }
    match r {
        Ok(t) => {
            assert!(!fail, "try_third_partial_derivative: Ok only if closure Ok");
            assert!(eq8(tuple8_bits(&t), hhd_bits(&out)), "third_partial_derivative result == the 8 parts in field order");
        }
        Err(e) => assert!(fail && e == err, "try_third_partial_derivative: Err(e) passes through"),
    }
    let mut seen2: Option<[HyperHyperDual64; 3]> = None;
    let t = third_partial_derivative(
        |a: HyperHyperDual64, b: HyperHyperDual64, c: HyperHyperDual64| {
            seen2 = Some([a, b, c]);
            out
        },
        x,
        y,
        z,
    );
    assert!(eq8(tuple8_bits(&t), hhd_bits(&out)), "third_partial_derivative (infallible) == the 8 parts in field order");
    match (seen, seen2) {
        (Some(a), Some(b)) => assert!(
            eq8(hhd_bits(&a[0]), hhd_bits(&b[0])) && eq8(hhd_bits(&a[1]), hhd_bits(&b[1])) && eq8(hhd_bits(&a[2]), hhd_bits(&b[2])),
            "third_partial_derivative: same seeds as try_ variant"
        ),
        _ => assert!(false, "closure is called"),
    }
}

/// third_partial_derivative_vec over a slice of length L with symbolic in-range i, j, k
/// (repeated indices included).  BOUNDED by L.
fn check_third_partial_derivative_vec<const L: usize>() {
    let xs: [f64; L] = kani::any();
    let (i, j, k): (usize, usize, usize) = (kani::any(), kani::any(), kani::any());
    kani::assume(i < L && j < L && k < L);
    let out = any_hyperhyperdual64();
    let (fail, err): (bool, E) = (kani::any(), kani::any());
    let mut seen: Option<[HyperHyperDual64; L]> = None;
    let mut seen_len = 0usize;
    let r = try_third_partial_derivative_vec(
        |v: &[HyperHyperDual64]| {
            seen_len = v.len();
            let mut a = [HyperHyperDual64::from_re(0.0); L];
            let mut t = 0;
            while t < L && t < v.len() {
                a[t] = v[t];
                t += 1;
            }
            seen = Some(a);
            if fail { Err(err) } else { Ok(out) }
        },
        &xs,
        i,
        j,
        k,
    );
    assert!(seen_len == L, "third_partial_derivative_vec: closure gets a slice of the input length");
    match seen {
        Some(s) => {
            let mut t = 0;
            while t < L {
                let want = [
                    b64(xs[t]),
                    if t == i { ONE } else { 0 },
                    if t == j { ONE } else { 0 },
                    if t == k { ONE } else { 0 },
                    0,
                    0,
                    0,
                    0,
                ];
                assert!(eq8(hhd_bits(&s[t]), want), "third_partial_derivative_vec seed: re = x[t]; eps1/eps2/eps3 = 1 exactly at t == i / j / k; mixed parts 0");
                t += 1;
            }
        }
        None => assert!(false, "closure is called"),
    }
    match r {
        Ok(t) => {
            assert!(!fail, "try_third_partial_derivative_vec: Ok only if closure Ok");
            assert!(eq8(tuple8_bits(&t), hhd_bits(&out)), "third_partial_derivative_vec result == the 8 parts in field order");
        }
        Err(e) => assert!(fail && e == err, "try_third_partial_derivative_vec: Err(e) passes through"),
    }
    // infallible variant: same result and the same seeds (it must forward the indices in the same order)
    let mut seen2: Option<[HyperHyperDual64; L]> = None;
    let t = third_partial_derivative_vec(
        |v: &[HyperHyperDual64]| {
            let mut a = [HyperHyperDual64::from_re(0.0); L];
            let mut t = 0;
            while t < L && t < v.len() {
                a[t] = v[t];
                t += 1;
            }
            seen2 = Some(a);
            out
        },
        &xs,
        i,
        j,
        k,
    );
    assert!(eq8(tuple8_bits(&t), hhd_bits(&out)), "third_partial_derivative_vec (infallible) == the 8 parts in field order");
    match (seen, seen2) {
        (Some(a), Some(b)) => {
            let mut t = 0;
            while t < L {
                assert!(eq8(hhd_bits(&a[t]), hhd_bits(&b[t])), "third_partial_derivative_vec (infallible): same seeds as the try_ variant (indices forwarded in order)");
                t += 1;
            }
        }
        _ => assert!(false, "third_partial_derivative_vec: closure is called"),
    }
}
#[kani::proof]
#[kani::unwind(3)]
fn c05_third_partial_derivative_vec_l1() {
    check_third_partial_derivative_vec::<1>();
}
#[kani::proof]
#[kani::unwind(4)]
fn c05_third_partial_derivative_vec_l2() {
    check_third_partial_derivative_vec::<2>();
}
#[kani::proof]
#[kani::unwind(5)]
fn c05_third_partial_derivative_vec_l3() {
    check_third_partial_derivative_vec::<3>();
}

// ===================================================================== gradient (static)
fn check_gradient<const N: usize>() {
    let xs: [f64; N] = kani::any();
    let out = any_dualsvec64::<N>();
    let (fail, err): (bool, E) = (kani::any(), kani::any());
    let mut seen: Option<SVector<DualSVec64<N>, N>> = None;
    let r = try_gradient(
        |v: SVector<DualSVec64<N>, N>| {
            seen = Some(v);
            if fail { Err(err) } else { Ok(out) }
        },
        SVector::<f64, N>::from(xs),
    );
    match seen {
        Some(v) => {
            let mut i = 0;
            while i < N {
                let vi = v.data.0[0][i];
                assert!(b64(vi.re) == b64(xs[i]), "gradient seed: x[i].re is the input, bit-for-bit");
                assert!(is_unit_col(&vi.eps, i), "gradient seed: x[i].eps is present and is the i-th unit vector");
                i += 1;
            }
        }
        None => assert!(false, "gradient: closure is called"),
    }
    match r {
        Ok((f, g)) => {
            assert!(!fail, "try_gradient: Ok only if closure Ok");
            assert!(b64(f) == b64(out.re), "gradient result.0 == out.re");
            assert!(mat_is(&g, &out.eps), "gradient result.1[i] == out.eps[i] (zeros when absent)");
        }
        Err(e) => assert!(fail && e == err, "try_gradient: Err(e) passes through unchanged"),
    }
    let mut seen2: Option<SVector<DualSVec64<N>, N>> = None;
    let (f, g) = gradient(
        |v: SVector<DualSVec64<N>, N>| {
            seen2 = Some(v);
            out
        },
        SVector::<f64, N>::from(xs),
    );
    assert!(b64(f) == b64(out.re) && mat_is(&g, &out.eps), "gradient (infallible) == (out.re, out.eps)");
    match (seen, seen2) {
        (Some(a), Some(b)) => {
            let mut i = 0;
            while i < N {
                let (ai, bi) = (a.data.0[0][i], b.data.0[0][i]);
                assert!(b64(ai.re) == b64(bi.re) && deriv_same(&ai.eps, &bi.eps), "gradient: same seed as try_ variant");
                i += 1;
            }
        }
        _ => assert!(false, "gradient: closure is called"),
    }
}
#[kani::proof]
#[kani::unwind(2)]
fn c05_gradient_n0() {
    check_gradient::<0>();
}
#[kani::proof]
#[kani::unwind(3)]
fn c05_gradient_n1() {
    check_gradient::<1>();
}
#[kani::proof]
#[kani::unwind(4)]
fn c05_gradient_n2() {
    check_gradient::<2>();
}
#[kani::proof]
#[kani::unwind(5)]
fn c05_gradient_n3() {
    check_gradient::<3>();
}

// ===================================================================== jacobian (static)
/// M outputs, N inputs
fn check_jacobian<const M: usize, const N: usize>() {
    let xs: [f64; N] = kani::any();
    let mut outs = [DualSVec64::<N>::from_re(0.0); M];
    let mut t = 0;
    while t < M {
        outs[t] = any_dualsvec64::<N>();
        t += 1;
    }
    let (fail, err): (bool, E) = (kani::any(), kani::any());
    let mut seen: Option<SVector<DualSVec64<N>, N>> = None;
    let r = try_jacobian(
        |v: SVector<DualSVec64<N>, N>| {
            seen = Some(v);
            if fail { Err(err) } else { Ok(SVector::<DualSVec64<N>, M>::from(outs)) }
        },
        SVector::<f64, N>::from(xs),
    );
    match seen {
        Some(v) => {
            let mut i = 0;
            while i < N {
                let vi = v.data.0[0][i];
                assert!(b64(vi.re) == b64(xs[i]), "jacobian seed: x[i].re is the input, bit-for-bit");
                assert!(is_unit_col(&vi.eps, i), "jacobian seed: x[i].eps is present and is the i-th unit vector");
                i += 1;
            }
        }
        None => assert!(false, "jacobian: closure is called"),
    }
    match r {
        Ok((f, jac)) => {
            assert!(!fail, "try_jacobian: Ok only if closure Ok");
            let (f, jac): (SVector<f64, M>, SMatrix<f64, M, N>) = (f, jac);
            let mut i = 0;
            while i < M {
                assert!(b64(f.data.0[0][i]) == b64(outs[i].re), "jacobian result.0[i] == out[i].re");
                let e = entries(&outs[i].eps);
                let mut j = 0;
                while j < N {
                    // column-major storage: data.0[col][row]
                    assert!(b64(jac.data.0[j][i]) == b64(e[0][j]), "jacobian result.1[(i,j)] == out[i].eps[j] (zeros when absent): row = output, column = input");
                    j += 1;
                }
                i += 1;
            }
        }
        Err(e) => assert!(fail && e == err, "try_jacobian: Err(e) passes through unchanged"),
    }
    let (f2, jac2): (SVector<f64, M>, SMatrix<f64, M, N>) = jacobian(
        |_v: SVector<DualSVec64<N>, N>| SVector::<DualSVec64<N>, M>::from(outs),
        SVector::<f64, N>::from(xs),
    );
    if let Ok((f, jac)) = r {
        assert!(mat_same(&f, &f2) && mat_same(&jac, &jac2), "jacobian (infallible) == try_jacobian result");
    }
}
macro_rules! jac {
    ($name:ident, $m:literal, $n:literal, $u:literal) => {
        #[kani::proof]
        #[kani::unwind($u)]
        fn $name() {
            check_jacobian::<$m, $n>();
        }
    };
}
jac!(c05_jacobian_m1_n1, 1, 1, 3);
jac!(c05_jacobian_m1_n2, 1, 2, 4);
jac!(c05_jacobian_m2_n1, 2, 1, 4);
jac!(c05_jacobian_m2_n2, 2, 2, 4);
jac!(c05_jacobian_m1_n3, 1, 3, 5);
jac!(c05_jacobian_m3_n1, 3, 1, 5);
jac!(c05_jacobian_m2_n3, 2, 3, 5);
jac!(c05_jacobian_m3_n2, 3, 2, 5);
jac!(c05_jacobian_m3_n3, 3, 3, 5);

// ===================================================================== hessian (static)
fn check_hessian<const N: usize>() {
    let xs: [f64; N] = kani::any();
    let out = any_dual2svec64::<N>();
    let (fail, err): (bool, E) = (kani::any(), kani::any());
    let mut seen: Option<SVector<Dual2SVec64<N>, N>> = None;
    let r = try_hessian(
        |v: SVector<Dual2SVec64<N>, N>| {
            seen = Some(v);
            if fail { Err(err) } else { Ok(out) }
        },
        SVector::<f64, N>::from(xs),
    );
    match seen {
        Some(v) => {
            let mut i = 0;
            while i < N {
                let vi = v.data.0[0][i];
                assert!(b64(vi.re) == b64(xs[i]), "hessian seed: x[i].re is the input, bit-for-bit");
                assert!(is_unit_row(&vi.v1, i), "hessian seed: x[i].v1 is present and is the i-th unit (row) vector");
                assert!(is_absent(&vi.v2), "hessian seed: x[i].v2 is absent");
                i += 1;
            }
        }
        None => assert!(false, "hessian: closure is called"),
    }
    match r {
        Ok((f, g, h)) => {
            assert!(!fail, "try_hessian: Ok only if closure Ok");
            assert!(b64(f) == b64(out.re), "hessian result.0 == out.re");
            assert!(col_is_row_t(&g, &out.v1), "hessian result.1[i] == out.v1[(0,i)] (column vector; zeros when absent)");
            assert!(mat_is(&h, &out.v2), "hessian result.2 == out.v2 entrywise (zeros when absent)");
        }
        Err(e) => assert!(fail && e == err, "try_hessian: Err(e) passes through unchanged"),
    }
    let (f, g, h) = hessian(|_v: SVector<Dual2SVec64<N>, N>| out, SVector::<f64, N>::from(xs));
    assert!(b64(f) == b64(out.re) && col_is_row_t(&g, &out.v1) && mat_is(&h, &out.v2), "hessian (infallible) == (re, v1^T, v2)");
}
#[kani::proof]
#[kani::unwind(3)]
fn c05_hessian_n1() {
    check_hessian::<1>();
}
#[kani::proof]
#[kani::unwind(6)] // N*N + 2: zeros_generic fills the N x N matrix through one iterator loop
fn c05_hessian_n2() {
    check_hessian::<2>();
}
#[kani::proof]
#[kani::unwind(11)] // N*N + 2
fn c05_hessian_n3() {
    check_hessian::<3>();
}

// ===================================================================== partial_hessian (static)
fn check_partial_hessian<const M: usize, const N: usize>() {
    let xs: [f64; M] = kani::any();
    let ys: [f64; N] = kani::any();
    let out = any_hyperdualsvec64::<M, N>();
    let (fail, err): (bool, E) = (kani::any(), kani::any());
    type H<const M: usize, const N: usize> = HyperDualSVec64<M, N>;
    let mut seen: Option<(SVector<H<M, N>, M>, SVector<H<M, N>, N>)> = None;
    let r = try_partial_hessian(
        |vx: SVector<H<M, N>, M>, vy: SVector<H<M, N>, N>| {
            seen = Some((vx, vy));
            if fail { Err(err) } else { Ok(out) }
        },
        SVector::<f64, M>::from(xs),
        SVector::<f64, N>::from(ys),
    );
    match seen {
        Some((vx, vy)) => {
            let mut i = 0;
            while i < M {
                let v = vx.data.0[0][i];
                assert!(b64(v.re) == b64(xs[i]), "partial_hessian seed: x[i].re is the input");
                assert!(is_unit_col(&v.eps1, i), "partial_hessian seed: x[i].eps1 is the i-th unit vector");
                assert!(is_absent(&v.eps2) && is_absent(&v.eps1eps2), "partial_hessian seed: x[i].eps2, x[i].eps1eps2 absent");
                i += 1;
            }
            let mut j = 0;
            while j < N {
                let v = vy.data.0[0][j];
                assert!(b64(v.re) == b64(ys[j]), "partial_hessian seed: y[j].re is the input");
                assert!(is_unit_row(&v.eps2, j), "partial_hessian seed: y[j].eps2 is the j-th unit (row) vector");
                assert!(is_absent(&v.eps1) && is_absent(&v.eps1eps2), "partial_hessian seed: y[j].eps1, y[j].eps1eps2 absent");
                j += 1;
            }
        }
        None => assert!(false, "partial_hessian: closure is called"),
    }
    match r {
        Ok((f, gx, gy, h)) => {
            assert!(!fail, "try_partial_hessian: Ok only if closure Ok");
            assert!(b64(f) == b64(out.re), "partial_hessian result.0 == out.re");
            assert!(mat_is(&gx, &out.eps1), "partial_hessian result.1 == out.eps1 (zeros when absent)");
            assert!(col_is_row_t(&gy, &out.eps2), "partial_hessian result.2[j] == out.eps2[(0,j)] (transposed; zeros when absent)");
            assert!(mat_is(&h, &out.eps1eps2), "partial_hessian result.3 == out.eps1eps2 entrywise, rows = x, columns = y");
        }
        Err(e) => assert!(fail && e == err, "try_partial_hessian: Err(e) passes through unchanged"),
    }
    let (f, gx, gy, h) = partial_hessian(
        |_vx: SVector<H<M, N>, M>, _vy: SVector<H<M, N>, N>| out,
        SVector::<f64, M>::from(xs),
        SVector::<f64, N>::from(ys),
    );
    assert!(
        b64(f) == b64(out.re) && mat_is(&gx, &out.eps1) && col_is_row_t(&gy, &out.eps2) && mat_is(&h, &out.eps1eps2),
        "partial_hessian (infallible) == (re, eps1, eps2^T, eps1eps2)"
    );
}
macro_rules! ph {
    ($name:ident, $m:literal, $n:literal, $u:literal) => {
        #[kani::proof]
        #[kani::unwind($u)]
        fn $name() {
            check_partial_hessian::<$m, $n>();
        }
    };
}
ph!(c05_partial_hessian_m1_n1, 1, 1, 3);
ph!(c05_partial_hessian_m2_n1, 2, 1, 4);
ph!(c05_partial_hessian_m1_n2, 1, 2, 4);
ph!(c05_partial_hessian_m2_n2, 2, 2, 6); // M*N + 2
ph!(c05_partial_hessian_m3_n2, 3, 2, 8);
ph!(c05_partial_hessian_m2_n3, 2, 3, 8);

// ===================================================================== dynamic sizes (BOUNDED)
// `DVector` / `Dyn` flavours.  BOUNDED: fixed length n per harness (n <= 3).  To keep CBMC's
// memory in check with heap-allocated storage, the seed is inspected *inside* the closure
// (the argument is not cloned out).
fn dyn_absent<R: nalgebra::Dim, C: nalgebra::Dim>(d: &Derivative<f64, f64, R, C>) -> bool
where
    nalgebra::DefaultAllocator: nalgebra::allocator::Allocator<R, C>,
{
    *d == Derivative::none()
}
fn dvec<const N: usize>(a: &[f64; N]) -> DVector<f64> {
    DVector::from_fn(N, |i, _| a[i])
}

/// seed check for gradient/jacobian: v[i] = (x[i], e_i)
fn dyn_seed_ok<const N: usize>(v: &DVector<DualDVec64>, xs: &[f64; N]) -> bool {
    let mut ok = v.len() == N;
    let mut i = 0;
    while ok && i < N {
        ok &= b64(v[i].re) == b64(xs[i]) && !dyn_absent(&v[i].eps);
        let e = v[i].eps.clone().unwrap_generic(Dyn(N), U1);
        ok &= e.len() == N;
        let mut k = 0;
        while ok && k < N {
            ok &= b64(e[k]) == if k == i { ONE } else { 0 };
            k += 1;
        }
        i += 1;
    }
    ok
}

fn check_gradient_dyn<const N: usize>() {
    let xs: [f64; N] = kani::any();
    let es: [f64; N] = kani::any();
    let out_re: f64 = kani::any();
    let out_present: bool = kani::any();
    let (fail, err): (bool, E) = (kani::any(), kani::any());
    let mut seed_ok = false;
    let r = try_gradient(
        |v: DVector<DualDVec64>| {
            seed_ok = dyn_seed_ok(&v, &xs);
            if fail {
                Err(err)
            } else {
                let eps = if out_present { Derivative::some(dvec(&es)) } else { Derivative::none() };
                Ok(DualDVec64::new(out_re, eps))
            }
        },
        dvec(&xs),
    );
    assert!(seed_ok, "gradient (Dyn) seed: same length, x[i].re = input, x[i].eps present = i-th unit vector of length n");
    match r {
        Ok((f, g)) => {
            assert!(!fail, "try_gradient (Dyn): Ok only if closure Ok");
            assert!(b64(f) == b64(out_re), "gradient (Dyn) result.0 == out.re");
            assert!(g.len() == N, "gradient (Dyn) result.1 has length n");
            let mut i = 0;
            while i < N {
                assert!(b64(g[i]) == if out_present { b64(es[i]) } else { 0 }, "gradient (Dyn) result.1[i] == out.eps[i] (zeros when absent)");
                i += 1;
            }
        }
        Err(e) => assert!(fail && e == err, "try_gradient (Dyn): Err(e) passes through"),
    }
}
#[kani::proof]
#[kani::unwind(3)]
fn c05_gradient_dyn_n1() {
    check_gradient_dyn::<1>();
}
#[kani::proof]
#[kani::unwind(4)]
fn c05_gradient_dyn_n2() {
    check_gradient_dyn::<2>();
}
#[kani::proof]
#[kani::unwind(5)]
fn c05_gradient_dyn_n3() {
    check_gradient_dyn::<3>();
}

// NOTE: a Dyn/Dyn `jacobian` probe (DVector<DualDVec64> result, m,n <= 2) was tried and
// abandoned: CBMC runs out of memory (> 40 GB) on the nested heap storage
// (`res.map(..)` + `OMatrix::from_rows`), even for m = 1, n = 2.  Not covered for Dyn.

/// hessian with Dyn length N; returned v1, v2 present
fn check_hessian_dyn<const N: usize>() {
    let xs: [f64; N] = kani::any();
    let g1: [f64; N] = kani::any();
    let h2: [[f64; N]; N] = kani::any();
    let out_re: f64 = kani::any();
    let mut seed_ok = false;
    let (f, g, h) = hessian(
        |v: DVector<Dual2DVec64>| {
            let mut ok = v.len() == N;
            let mut i = 0;
            while ok && i < N {
                ok &= b64(v[i].re) == b64(xs[i]) && !dyn_absent(&v[i].v1) && dyn_absent(&v[i].v2);
                let e = v[i].v1.clone().unwrap_generic(U1, Dyn(N));
                ok &= e.nrows() == 1 && e.ncols() == N;
                let mut k = 0;
                while ok && k < N {
                    ok &= b64(e[(0, k)]) == if k == i { ONE } else { 0 };
                    k += 1;
                }
                i += 1;
            }
            seed_ok = ok;
            Dual2DVec64::new(
                out_re,
                Derivative::some(nalgebra::RowDVector::from_fn(N, |_, j| g1[j])),
                Derivative::some(nalgebra::DMatrix::from_fn(N, N, |i, j| h2[i][j])),
            )
        },
        dvec(&xs),
    );
    assert!(seed_ok, "hessian (Dyn) seed: x[i].re = input, x[i].v1 = i-th unit row, x[i].v2 absent");
    assert!(b64(f) == b64(out_re), "hessian (Dyn) result.0 == out.re");
    assert!(g.len() == N && h.nrows() == N && h.ncols() == N, "hessian (Dyn) result shapes");
    let mut i = 0;
    while i < N {
        assert!(b64(g[i]) == b64(g1[i]), "hessian (Dyn) result.1[i] == out.v1[(0,i)]");
        let mut j = 0;
        while j < N {
            assert!(b64(h[(i, j)]) == b64(h2[i][j]), "hessian (Dyn) result.2[(i,j)] == out.v2[(i,j)]");
            j += 1;
        }
        i += 1;
    }
}
#[kani::proof]
#[kani::unwind(7)]
fn c05_hessian_dyn_n2() {
    check_hessian_dyn::<2>();
}
