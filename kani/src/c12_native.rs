//! C12, label **bounded/test** (NOT a Kani proof): native exhaustive enumeration of the same
//! integer grid as `c12_linalg.rs`, for what CBMC cannot handle (`LU::inverse`) and for the
//! fully symbolic combination of real and eps parts of `solve` (Kani proves two slices).
//! Run by `bin/kani_check C12` through `cargo test --release --lib --features linalg`.
//! All identities are asserted EXACTLY (float `==`), in the real and in the eps part.
use ndarray::{arr1, arr2};
use num_dual::linalg::LU;
use num_dual::Dual64;

const G: [i64; 5] = [-2, -1, 0, 1, 2];
fn d(r: i64, e: i64) -> Dual64 {
    Dual64::new(r as f64, e as f64)
}
fn pow2(x: i64) -> bool {
    matches!(x.abs(), 1 | 2 | 4 | 8)
}
fn deq(a: Dual64, b: Dual64) -> bool {
    a.re == b.re && a.eps == b.eps
}
/// all matrices of the grid: 5^8 = 390 625
fn for_all_matrices(mut f: impl FnMut([[i64; 2]; 2], [[i64; 2]; 2])) {
    for r00 in G { for r01 in G { for r10 in G { for r11 in G {
        for e00 in G { for e01 in G { for e10 in G { for e11 in G {
            f([[r00, r01], [r10, r11]], [[e00, e01], [e10, e11]]);
        }}}}
    }}}}
}

/// A * inverse() == I exactly (re 1/0, eps 0) for EVERY grid matrix with |det(A.re)| a power of
/// two; singular real part <=> Err for every grid matrix.
#[test]
fn c12_native_inverse_exhaustive_n2() {
    let (mut n_swap, mut n_noswap, mut n_sing) = (0u64, 0u64, 0u64);
    for_all_matrices(|r, e| {
        let a = [[d(r[0][0], e[0][0]), d(r[0][1], e[0][1])], [d(r[1][0], e[1][0]), d(r[1][1], e[1][1])]];
        let det = r[0][0] * r[1][1] - r[0][1] * r[1][0];
        let lu = LU::<Dual64, f64>::new(arr2(&a));
        if det == 0 {
            assert!(lu.is_err(), "singular real part must be reported: {r:?}");
            n_sing += 1;
            return;
        }
        let lu = lu.unwrap_or_else(|_| panic!("regular real part reported singular: {r:?}"));
        let dd = lu.determinant();
        let de = e[0][0] * r[1][1] + r[0][0] * e[1][1] - e[0][1] * r[1][0] - r[0][1] * e[1][0];
        assert!(dd.re == det as f64 && dd.eps == de as f64, "determinant {r:?} {e:?}: {dd}");
        if !pow2(det) {
            return;
        }
        let ia = lu.inverse();
        let (one, zero) = (d(1, 0), d(0, 0));
        for i in 0..2 {
            for j in 0..2 {
                let p = a[i][0] * ia[(0, j)] + a[i][1] * ia[(1, j)];
                assert!(deq(p, if i == j { one } else { zero }), "(A A^-1)[{i}][{j}] = {p} for {r:?} {e:?}");
                let q = ia[(i, 0)] * a[0][j] + ia[(i, 1)] * a[1][j];
                assert!(deq(q, if i == j { one } else { zero }), "(A^-1 A)[{i}][{j}] = {q} for {r:?} {e:?}");
            }
        }
        if r[1][0].abs() > r[0][0].abs() { n_swap += 1 } else { n_noswap += 1 }
    });
    assert!(n_swap > 0 && n_noswap > 0 && n_sing > 0, "both pivot paths and the singular case are exercised");
}

/// A x == b exactly for every grid matrix with |det(A.re)| a power of two and every
/// b with re in -2..=2 and eps in {-1, 2} (390 625 x 100 cases).
#[test]
fn c12_native_solve_exhaustive_n2() {
    let mut n = 0u64;
    for_all_matrices(|r, e| {
        let det = r[0][0] * r[1][1] - r[0][1] * r[1][0];
        if !pow2(det) {
            return;
        }
        let a = [[d(r[0][0], e[0][0]), d(r[0][1], e[0][1])], [d(r[1][0], e[1][0]), d(r[1][1], e[1][1])]];
        let lu = LU::<Dual64, f64>::new(arr2(&a)).unwrap_or_else(|_| panic!("regular matrix reported singular: {r:?}"));
        for b0r in G { for b1r in G { for b0e in [-1, 2] { for b1e in [-1, 2] {
            let b = [d(b0r, b0e), d(b1r, b1e)];
            let x = lu.solve(&arr1(&b));
            for i in 0..2 {
                let p = a[i][0] * x[0] + a[i][1] * x[1];
                assert!(deq(p, b[i]), "(A x)[{i}] = {p} != {} for {r:?} {e:?}", b[i]);
            }
            n += 1;
        }}}}
    });
    assert!(n > 1_000_000);
}

// ===================================================================== n = 3
// BOUNDED/TEST.  All real-part matrices over a small integer grid, each combined with fixed,
// non-symmetric integer eps patterns (real and eps parts vary together).  An INDEPENDENT exact
// elimination in rational arithmetic (same pivot rule as the crate: largest |re| in the
// column, first maximum wins) classifies every matrix:
//   * singular   : some step has no non-zero candidate pivot
//   * kept       : regular and every pivot real part is +- a power of two  => every float
//                  operation of LU::new / solve / determinant / inverse is exact
//   * rejected   : regular but some pivot is not a power of two (rounding possible; skipped,
//                  except that Ok is still required)
// and records the row-exchange pattern.
#[derive(Clone, Copy, PartialEq, Debug)]
struct Fr(i64, i64); // numerator, denominator > 0, reduced
fn gcd(a: i64, b: i64) -> i64 {
    if b == 0 { a.abs() } else { gcd(b, a % b) }
}
impl Fr {
    fn new(n: i64, d: i64) -> Fr {
        let g = gcd(n, d).max(1);
        let s = if d < 0 { -1 } else { 1 };
        Fr(s * n / g, s * d / g)
    }
    fn sub(self, o: Fr) -> Fr {
        Fr::new(self.0 * o.1 - o.0 * self.1, self.1 * o.1)
    }
    fn mul(self, o: Fr) -> Fr {
        Fr::new(self.0 * o.0, self.1 * o.1)
    }
    fn div(self, o: Fr) -> Fr {
        Fr::new(self.0 * o.1, self.1 * o.0)
    }
    fn abs_gt(self, o: Fr) -> bool {
        self.0.abs() * o.1 > o.0.abs() * self.1
    }
    fn is_pm_pow2(self) -> bool {
        let p2 = |x: i64| x > 0 && (x & (x - 1)) == 0;
        p2(self.0.abs()) && p2(self.1)
    }
}
#[derive(Default, Debug)]
struct Elim {
    singular: bool,
    pivots_pow2: bool,
    /// imax - i at step 0 and step 1 (0 = no exchange)
    exch: [usize; 2],
}
/// reference elimination on the real parts, exact
fn reference_elimination(r: &[[i64; 3]; 3]) -> Elim {
    let mut a = [[Fr(0, 1); 3]; 3];
    for i in 0..3 { for j in 0..3 { a[i][j] = Fr(r[i][j], 1); } }
    let mut out = Elim { singular: false, pivots_pow2: true, exch: [0, 0] };
    for i in 0..3 {
        let (mut max, mut imax) = (Fr(0, 1), i);
        for k in i..3 {
            if a[k][i].abs_gt(max) { max = a[k][i]; imax = k; }
        }
        if max.0 == 0 { out.singular = true; return out; }
        if i < 2 { out.exch[i] = imax - i; }
        a.swap(i, imax);
        if !a[i][i].is_pm_pow2() { out.pivots_pow2 = false; }
        for j in i + 1..3 {
            let l = a[j][i].div(a[i][i]);
            for k in i..3 { a[j][k] = a[j][k].sub(l.mul(a[i][k])); }
        }
    }
    out
}
/// dual number with integer parts
#[derive(Clone, Copy)]
struct ID(i64, i64);
impl ID {
    fn mul(self, o: ID) -> ID { ID(self.0 * o.0, self.0 * o.1 + self.1 * o.0) }
    fn sub(self, o: ID) -> ID { ID(self.0 - o.0, self.1 - o.1) }
    fn add(self, o: ID) -> ID { ID(self.0 + o.0, self.1 + o.1) }
}
/// cofactor determinant in dual-integer arithmetic (eps part = Jacobi's formula)
fn det3(m: &[[ID; 3]; 3]) -> ID {
    let c = |a: ID, b: ID, c: ID, d: ID| a.mul(d).sub(b.mul(c));
    m[0][0].mul(c(m[1][1], m[1][2], m[2][1], m[2][2]))
        .sub(m[0][1].mul(c(m[1][0], m[1][2], m[2][0], m[2][2])))
        .add(m[0][2].mul(c(m[1][0], m[1][1], m[2][0], m[2][1])))
}
/// fixed eps patterns: non-symmetric; the first has 9 distinct entries
const EPS3: [[[i64; 3]; 3]; 3] = [
    [[1, -2, 3], [-4, 5, -6], [7, -8, 9]],
    [[0, 1, 0], [2, 0, -1], [0, 0, 3]],
    [[-3, 1, 4], [1, -5, 9], [2, 6, -7]],
];
/// right-hand sides (re, eps)
const RHS3: [[(i64, i64); 3]; 3] = [
    [(1, 2), (-2, 1), (3, -4)],
    [(0, 1), (1, 0), (-1, 3)],
    [(2, -1), (2, 5), (-3, 0)],
];

#[derive(Default, Debug)]
struct Counts {
    enumerated: u64,
    singular: u64,
    /// singular in exact arithmetic, but an earlier pivot is not a power of two, so the zero
    /// candidates need not be exact zeros in floats: not asserted
    singular_after_rounding_pivot_skipped: u64,
    kept: u64,
    rejected_non_pow2_pivot: u64,
    exchange_step0: u64,
    exchange_step1: u64,
    pivot_two_rows_below: u64,
    exchange_step0_and_step1: u64,
    lu_runs: u64,
    solves: u64,
}
fn lu_exhaustive_n3(grid: &[i64]) -> Counts {
    let mut c = Counts::default();
    let g = grid.len();
    let mut idx = [0usize; 9];
    loop {
        let mut r = [[0i64; 3]; 3];
        for t in 0..9 { r[t / 3][t % 3] = grid[idx[t]]; }
        c.enumerated += 1;
        let e = reference_elimination(&r);
        if e.singular {
            c.singular += 1;
            if !e.pivots_pow2 { c.singular_after_rounding_pivot_skipped += 1 }
        } else if e.pivots_pow2 {
            c.kept += 1;
            if e.exch[0] > 0 { c.exchange_step0 += 1 }
            if e.exch[1] > 0 { c.exchange_step1 += 1 }
            if e.exch[0] == 2 { c.pivot_two_rows_below += 1 }
            if e.exch[0] > 0 && e.exch[1] > 0 { c.exchange_step0_and_step1 += 1 }
        } else {
            c.rejected_non_pow2_pivot += 1;
        }
        for ep in EPS3.iter() {
            let mut id = [[ID(0, 0); 3]; 3];
            let mut a = [[d(0, 0); 3]; 3];
            for i in 0..3 { for j in 0..3 { id[i][j] = ID(r[i][j], ep[i][j]); a[i][j] = d(r[i][j], ep[i][j]); } }
            let lu = LU::<Dual64, f64>::new(arr2(&a));
            c.lu_runs += 1;
            // (1) singular <=> Err  (pivots before the zero column are powers of two on the
            //     grids used here whenever the reference says so; otherwise only Ok is required)
            if e.singular {
                // pivots_pow2 here = all pivots BEFORE the zero column are powers of two, i.e.
                // the zero candidates are exact zeros in float arithmetic as well
                if e.pivots_pow2 {
                    assert!(lu.is_err(), "(1) singular real part must be reported as Err: {r:?}");
                }
                continue;
            }
            let lu = lu.unwrap_or_else(|_| panic!("(1) regular real part reported singular: {r:?}"));
            if !e.pivots_pow2 {
                continue;
            }
            // (2) determinant, re and eps
            let want = det3(&id);
            let got = lu.determinant();
            assert!(got.re == want.0 as f64 && got.eps == want.1 as f64,
                "(2) determinant() = {got}, expected {} + {}eps for {r:?} eps {ep:?} (exchanges {:?})", want.0, want.1, e.exch);
            // (3) A solve(b) == b
            for rhs in RHS3.iter() {
                let b = [d(rhs[0].0, rhs[0].1), d(rhs[1].0, rhs[1].1), d(rhs[2].0, rhs[2].1)];
                let x = lu.solve(&arr1(&b));
                c.solves += 1;
                for i in 0..3 {
                    let p = a[i][0] * x[0] + a[i][1] * x[1] + a[i][2] * x[2];
                    assert!(deq(p, b[i]), "(3) (A x)[{i}] = {p} != {} for {r:?} eps {ep:?} (exchanges {:?})", b[i], e.exch);
                }
            }
            // (4) A A^-1 == I and A^-1 A == I
            let ia = lu.inverse();
            for i in 0..3 {
                for j in 0..3 {
                    let want = if i == j { d(1, 0) } else { d(0, 0) };
                    let p = a[i][0] * ia[(0, j)] + a[i][1] * ia[(1, j)] + a[i][2] * ia[(2, j)];
                    assert!(deq(p, want), "(4) (A A^-1)[{i}][{j}] = {p} for {r:?} eps {ep:?} (exchanges {:?})", e.exch);
                    let q = ia[(i, 0)] * a[0][j] + ia[(i, 1)] * a[1][j] + ia[(i, 2)] * a[2][j];
                    assert!(deq(q, want), "(4) (A^-1 A)[{i}][{j}] = {q} for {r:?} eps {ep:?} (exchanges {:?})", e.exch);
                }
            }
        }
        // next index vector
        let mut t = 0;
        while t < 9 {
            idx[t] += 1;
            if idx[t] < g { break; }
            idx[t] = 0;
            t += 1;
        }
        if t == 9 { break; }
    }
    assert!(c.exchange_step1 > 0 && c.pivot_two_rows_below > 0 && c.exchange_step0_and_step1 > 0 && c.singular > 0,
        "every row-exchange pattern is exercised: {c:?}");
    c
}

/// all 3^9 = 19 683 real-part matrices with entries in {-1, 0, 1}
#[test]
fn c12_native_lu_exhaustive_n3_grid1() {
    let c = lu_exhaustive_n3(&[-1, 0, 1]);
    println!("EVIDENCE grid {{-1,0,1}}, 3 eps patterns, 3 rhs: {c:?}");
}
/// all 5^9 = 1 953 125 real-part matrices with entries in -2..=2
#[test]
fn c12_native_lu_exhaustive_n3_grid2() {
    let c = lu_exhaustive_n3(&[-2, -1, 0, 1, 2]);
    println!("EVIDENCE grid -2..=2, 3 eps patterns, 3 rhs: {c:?}");
}
