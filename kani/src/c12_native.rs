//! C12, label **bounded/test** (NOT a Kani proof): native exhaustive enumeration of the same
//! integer grid as `c12_linalg.rs`, for what CBMC cannot handle (`LU::inverse`) and for the
//! fully symbolic combination of real and eps parts of `solve` (Kani proves two slices).
//! Run by `bin/kani_check C12` through `cargo test --release --lib --features linalg`.
//! All identities are asserted EXACTLY (float `==`), in the real and in the eps part.
use ndarray::{arr1, arr2};
use num_dual::linalg::LU;
use num_dual::Dual64;

const G: [i64; 5] = [-2, -1, 0, 1, 2];
fn d(r: i64, e: i64) -> Dual64 {
    Dual64::new(r as f64, e as f64)
}
fn pow2(x: i64) -> bool {
    matches!(x.abs(), 1 | 2 | 4 | 8)
}
fn deq(a: Dual64, b: Dual64) -> bool {
    a.re == b.re && a.eps == b.eps
}
/// all matrices of the grid: 5^8 = 390 625
fn for_all_matrices(mut f: impl FnMut([[i64; 2]; 2], [[i64; 2]; 2])) {
    for r00 in G { for r01 in G { for r10 in G { for r11 in G {
        for e00 in G { for e01 in G { for e10 in G { for e11 in G {
            f([[r00, r01], [r10, r11]], [[e00, e01], [e10, e11]]);
        }}}}
    }}}}
}

/// A * inverse() == I exactly (re 1/0, eps 0) for EVERY grid matrix with |det(A.re)| a power of
/// two; singular real part <=> Err for every grid matrix.
#[test]
fn c12_native_inverse_exhaustive_n2() {
    let (mut n_swap, mut n_noswap, mut n_sing) = (0u64, 0u64, 0u64);
    for_all_matrices(|r, e| {
        let a = [[d(r[0][0], e[0][0]), d(r[0][1], e[0][1])], [d(r[1][0], e[1][0]), d(r[1][1], e[1][1])]];
        let det = r[0][0] * r[1][1] - r[0][1] * r[1][0];
        let lu = LU::<Dual64, f64>::new(arr2(&a));
        if det == 0 {
            assert!(lu.is_err(), "singular real part must be reported: {r:?}");
            n_sing += 1;
            return;
        }
        let lu = lu.unwrap_or_else(|_| panic!("regular real part reported singular: {r:?}"));
        let dd = lu.determinant();
        let de = e[0][0] * r[1][1] + r[0][0] * e[1][1] - e[0][1] * r[1][0] - r[0][1] * e[1][0];
        assert!(dd.re == det as f64 && dd.eps == de as f64, "determinant {r:?} {e:?}: {dd}");
        if !pow2(det) {
            return;
        }
        let ia = lu.inverse();
        let (one, zero) = (d(1, 0), d(0, 0));
        for i in 0..2 {
            for j in 0..2 {
                let p = a[i][0] * ia[(0, j)] + a[i][1] * ia[(1, j)];
                assert!(deq(p, if i == j { one } else { zero }), "(A A^-1)[{i}][{j}] = {p} for {r:?} {e:?}");
                let q = ia[(i, 0)] * a[0][j] + ia[(i, 1)] * a[1][j];
                assert!(deq(q, if i == j { one } else { zero }), "(A^-1 A)[{i}][{j}] = {q} for {r:?} {e:?}");
            }
        }
        if r[1][0].abs() > r[0][0].abs() { n_swap += 1 } else { n_noswap += 1 }
    });
    assert!(n_swap > 0 && n_noswap > 0 && n_sing > 0, "both pivot paths and the singular case are exercised");
}

/// A x == b exactly for every grid matrix with |det(A.re)| a power of two and every
/// b with re in -2..=2 and eps in {-1, 2} (390 625 x 100 cases).
#[test]
fn c12_native_solve_exhaustive_n2() {
    let mut n = 0u64;
    for_all_matrices(|r, e| {
        let det = r[0][0] * r[1][1] - r[0][1] * r[1][0];
        if !pow2(det) {
            return;
        }
        let a = [[d(r[0][0], e[0][0]), d(r[0][1], e[0][1])], [d(r[1][0], e[1][0]), d(r[1][1], e[1][1])]];
        let lu = LU::<Dual64, f64>::new(arr2(&a)).unwrap_or_else(|_| panic!("regular matrix reported singular: {r:?}"));
        for b0r in G { for b1r in G { for b0e in [-1, 2] { for b1e in [-1, 2] {
            let b = [d(b0r, b0e), d(b1r, b1e)];
            let x = lu.solve(&arr1(&b));
            for i in 0..2 {
                let p = a[i][0] * x[0] + a[i][1] * x[1];
                assert!(deq(p, b[i]), "(A x)[{i}] = {p} != {} for {r:?} {e:?}", b[i]);
            }
            n += 1;
        }}}}
    });
    assert!(n > 1_000_000);
}
