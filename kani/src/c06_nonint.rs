//! C06 (part 3): non-interference.  The real part of the result of + - * / does not depend
//! on the derivative parts of the operands: two runs with the same real parts and independent
//! symbolic derivative parts give bit-identical real parts.  Loop-free, full f64 domain
//! including NaN, +-0, inf and subnormals (a NaN result is compared as "both NaN": the payload
//! of an arithmetic NaN is unspecified).
//!
//! Solver: the proof obligation is "two copies of the same float multiplier/divider agree",
//! which SAT back ends (cadical, kissat, minisat) do not finish in > 20 min; the SMT back end
//! (cvc5, FP theory, hash-consing) discharges it in seconds.  These harnesses therefore carry
//! `#[kani::solver(cvc5)]`.
//! Flags: `--no-overflow-checks` (CBMC's NaN / float-overflow instrumentation would flag
//! inf-inf, 0*inf, MAX*2 ... as failures; such inputs are *in* the domain here).
use crate::util::*;
use num_dual::*;

#[inline(always)]
fn same_re(x: f64, y: f64) -> bool {
    b64(x) == b64(y) || (x.is_nan() && y.is_nan())
}

macro_rules! nonint_dd {
    ($name:ident, $mk:expr) => {
        /// dual (op) dual
        #[kani::proof]
        #[kani::solver(cvc5)]
        fn $name() {
            let (mut a1, mut b1) = ($mk, $mk);
            let (mut a2, mut b2) = ($mk, $mk);
            let (ra, rb): (f64, f64) = (kani::any(), kani::any());
            a1.re = ra;
            a2.re = ra;
            b1.re = rb;
            b2.re = rb;
            assert!(same_re((a1 + b1).re, (a2 + b2).re), "(a+b).re independent of derivative parts");
            assert!(same_re((a1 - b1).re, (a2 - b2).re), "(a-b).re independent of derivative parts");
            assert!(same_re((a1 * b1).re, (a2 * b2).re), "(a*b).re independent of derivative parts");
            assert!(same_re((a1 / b1).re, (a2 / b2).re), "(a/b).re independent of derivative parts");
            // and it is the float operation on the real parts
            assert!(same_re((a1 + b1).re, ra + rb), "(a+b).re == a.re + b.re");
            assert!(same_re((a1 - b1).re, ra - rb), "(a-b).re == a.re - b.re");
            assert!(same_re((a1 * b1).re, ra * rb), "(a*b).re == a.re * b.re");
        }
    };
}
macro_rules! nonint_ds {
    ($sname:ident, $mk:expr) => {
        /// dual (op) scalar
        #[kani::proof]
        #[kani::solver(cvc5)]
        fn $sname() {
            let mut a1 = $mk;
            let mut a2 = $mk;
            let (ra, s): (f64, f64) = (kani::any(), kani::any());
            a1.re = ra;
            a2.re = ra;
            assert!(same_re((a1 + s).re, (a2 + s).re), "(a+s).re independent of derivative parts");
            assert!(same_re((a1 - s).re, (a2 - s).re), "(a-s).re independent of derivative parts");
            assert!(same_re((a1 * s).re, (a2 * s).re), "(a*s).re independent of derivative parts");
            assert!(same_re((a1 / s).re, (a2 / s).re), "(a/s).re independent of derivative parts");
            assert!(same_re((a1 + s).re, ra + s), "(a+s).re == a.re + s");
            assert!(same_re((a1 - s).re, ra - s), "(a-s).re == a.re - s");
            assert!(same_re((a1 * s).re, ra * s), "(a*s).re == a.re * s");
            assert!(same_re((a1 / s).re, ra / s), "(a/s).re == a.re / s");
        }
    };
}
nonint_dd!(c06_nonint_dual64, any_dual64());
nonint_dd!(c06_nonint_dual2_64, any_dual2_64());
nonint_dd!(c06_nonint_hyperdual64, any_hyperdual64());
nonint_ds!(c06_nonint_scalar_dual64, any_dual64());
nonint_ds!(c06_nonint_scalar_dual2_64, any_dual2_64());
nonint_ds!(c06_nonint_scalar_hyperdual64, any_hyperdual64());
nonint_ds!(c06_nonint_scalar_dual3_64, any_dual3_64());

/// Dual3: `+ - *` on the full domain.  `/` is split off (below) because CBMC's SMT2 back end
/// aborts on `Dual3::div` ("flatten2bv of a non-constant FPA-encoded float is unsupported",
/// caused by the `Option<f64>` produced by `F::from(-2.0).unwrap()` in that function) and the
/// SAT back ends do not terminate on the full domain.
#[kani::proof]
#[kani::solver(cvc5)]
fn c06_nonint_dual3_64() {
    let (mut a1, mut b1) = (any_dual3_64(), any_dual3_64());
    let (mut a2, mut b2) = (any_dual3_64(), any_dual3_64());
    let (ra, rb): (f64, f64) = (kani::any(), kani::any());
    a1.re = ra;
    a2.re = ra;
    b1.re = rb;
    b2.re = rb;
    assert!(same_re((a1 + b1).re, (a2 + b2).re), "(a+b).re independent of derivative parts");
    assert!(same_re((a1 - b1).re, (a2 - b2).re), "(a-b).re independent of derivative parts");
    assert!(same_re((a1 * b1).re, (a2 * b2).re), "(a*b).re independent of derivative parts");
    assert!(same_re((a1 + b1).re, ra + rb), "(a+b).re == a.re + b.re");
    assert!(same_re((a1 - b1).re, ra - rb), "(a-b).re == a.re - b.re");
    assert!(same_re((a1 * b1).re, ra * rb), "(a*b).re == a.re * b.re");
}

/// Dual3 `/`, BOUNDED: real parts on the grid a.re in {-4..4}, b.re in {+-1,+-2,+-4,+-0.5};
/// all derivative parts arbitrary f64 bit patterns.  Default SAT solver.
#[kani::proof]
fn c06_nonint_div_dual3_64_grid() {
    let (mut a1, mut b1) = (any_dual3_64(), any_dual3_64());
    let (mut a2, mut b2) = (any_dual3_64(), any_dual3_64());
    let ia: i8 = kani::any();
    kani::assume(-4 <= ia && ia <= 4);
    let k: u8 = kani::any();
    kani::assume(k < 8);
    let rb = [1.0, -1.0, 2.0, -2.0, 4.0, -4.0, 0.5, -0.5][k as usize];
    let ra = ia as f64;
    a1.re = ra;
    a2.re = ra;
    b1.re = rb;
    b2.re = rb;
    assert!(same_re((a1 / b1).re, (a2 / b2).re), "(a/b).re independent of derivative parts");
    assert!(same_re((a1 / b1).re, ra / rb), "(a/b).re == a.re / b.re on the grid");
}
