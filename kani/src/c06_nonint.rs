use crate::util::*;
use num_dual::*;

#[inline(always)]
fn same_re(x: f64, y: f64) -> bool {
    b64(x) == b64(y) || (x.is_nan() && y.is_nan())
}
macro_rules! t {
    ($name:ident, $solver:ident) => {
        #[kani::proof]
        #[kani::solver($solver)]
        fn $name() {
            let (mut a1, mut b1) = (any_dual64(), any_dual64());
            let (mut a2, mut b2) = (any_dual64(), any_dual64());
            let (ra, rb): (f64, f64) = (kani::any(), kani::any());
            a1.re = ra;
            a2.re = ra;
            b1.re = rb;
            b2.re = rb;
            assert!(same_re((a1 * b1).re, (a2 * b2).re), "(a*b).re independent of derivative parts");
        }
    };
}
t!(x_mul_z3, z3);
t!(x_mul_cvc5, cvc5);
#[kani::proof]
fn x_addsub() {
            let (mut a1, mut b1) = (any_dual64(), any_dual64());
            let (mut a2, mut b2) = (any_dual64(), any_dual64());
            let (ra, rb): (f64, f64) = (kani::any(), kani::any());
            a1.re = ra;
            a2.re = ra;
            b1.re = rb;
            b2.re = rb;
            assert!(same_re((a1 + b1).re, (a2 + b2).re), "(a+b).re independent of derivative parts");
            assert!(same_re((a1 - b1).re, (a2 - b2).re), "(a+b).re independent of derivative parts");
}
