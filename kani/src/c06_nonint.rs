//! C06 (part 3): non-interference.  The real part of the result of + - * / does not depend
//! on the derivative parts of the operands: two runs with the same real parts and independent
//! symbolic derivative parts give bit-identical real parts.  Loop-free, full f64 domain
//! (NaN results are compared as "both NaN": IEEE/CBMC leave the NaN payload of an arithmetic
//! result unspecified).
use crate::util::*;
use num_dual::*;

#[inline(always)]
fn same_re(x: f64, y: f64) -> bool {
    b64(x) == b64(y) || (x.is_nan() && y.is_nan())
}

macro_rules! nonint_harness {
    ($name:ident, $sname:ident, $mk:expr) => {
        /// dual (op) dual
        #[kani::proof]
        fn $name() {
            let (mut a1, mut b1) = ($mk, $mk);
            let (mut a2, mut b2) = ($mk, $mk);
            let (ra, rb): (f64, f64) = (kani::any(), kani::any());
            a1.re = ra;
            a2.re = ra;
            b1.re = rb;
            b2.re = rb;
            assert!(same_re((a1 + b1).re, (a2 + b2).re), "(a+b).re independent of derivative parts");
            assert!(same_re((a1 - b1).re, (a2 - b2).re), "(a-b).re independent of derivative parts");
            assert!(same_re((a1 * b1).re, (a2 * b2).re), "(a*b).re independent of derivative parts");
            assert!(same_re((a1 / b1).re, (a2 / b2).re), "(a/b).re independent of derivative parts");
            // and it is the float operation on the real parts
            assert!(same_re((a1 + b1).re, ra + rb), "(a+b).re == a.re + b.re");
            assert!(same_re((a1 - b1).re, ra - rb), "(a-b).re == a.re - b.re");
            assert!(same_re((a1 * b1).re, ra * rb), "(a*b).re == a.re * b.re");
        }
        /// dual (op) scalar
        #[kani::proof]
        fn $sname() {
            let mut a1 = $mk;
            let mut a2 = $mk;
            let (ra, s): (f64, f64) = (kani::any(), kani::any());
            a1.re = ra;
            a2.re = ra;
            assert!(same_re((a1 + s).re, (a2 + s).re), "(a+s).re independent of derivative parts");
            assert!(same_re((a1 - s).re, (a2 - s).re), "(a-s).re independent of derivative parts");
            assert!(same_re((a1 * s).re, (a2 * s).re), "(a*s).re independent of derivative parts");
            assert!(same_re((a1 / s).re, (a2 / s).re), "(a/s).re independent of derivative parts");
            assert!(same_re((a1 + s).re, ra + s), "(a+s).re == a.re + s");
            assert!(same_re((a1 - s).re, ra - s), "(a-s).re == a.re - s");
            assert!(same_re((a1 * s).re, ra * s), "(a*s).re == a.re * s");
            assert!(same_re((a1 / s).re, ra / s), "(a/s).re == a.re / s");
        }
    };
}
nonint_harness!(c06_nonint_dual64, c06_nonint_scalar_dual64, any_dual64());
nonint_harness!(c06_nonint_dual2_64, c06_nonint_scalar_dual2_64, any_dual2_64());
nonint_harness!(c06_nonint_hyperdual64, c06_nonint_scalar_hyperdual64, any_hyperdual64());
nonint_harness!(c06_nonint_dual3_64, c06_nonint_scalar_dual3_64, any_dual3_64());
