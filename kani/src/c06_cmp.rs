//! C06 (part 1): comparisons look at the real part only.  Loop-free, full f64 domain.
use crate::util::*;
use num_dual::*;
use std::cmp::Ordering;

macro_rules! cmp_harness {
    ($name:ident, $mk:expr) => {
        #[kani::proof]
        fn $name() {
            let a = $mk;
            let b = $mk;
            let (x, y) = (a.re, b.re);
            assert!((a == b) == (x == y), "== decided by re");
            assert!((a != b) == (x != y), "!= decided by re");
            assert!((a < b) == (x < y), "< decided by re");
            assert!((a <= b) == (x <= y), "<= decided by re");
            assert!((a > b) == (x > y), "> decided by re");
            assert!((a >= b) == (x >= y), ">= decided by re");
            assert!(a.partial_cmp(&b) == x.partial_cmp(&y), "partial_cmp decided by re");
        }
    };
}

cmp_harness!(c06_cmp_dual64, any_dual64());
cmp_harness!(c06_cmp_dual2_64, any_dual2_64());
cmp_harness!(c06_cmp_dualsvec64_1, any_dualsvec64::<1>());
cmp_harness!(c06_cmp_dualsvec64_2, any_dualsvec64::<2>());
cmp_harness!(c06_cmp_dual2svec64_1, any_dual2svec64::<1>());
cmp_harness!(c06_cmp_dual2svec64_2, any_dual2svec64::<2>());
