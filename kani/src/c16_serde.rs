//! C16: serde round trip of the scalar dual-number types (crate feature `serde`).
//!
//! A tiny *exact* self-describing token format lives in this file:
//!   `TokSer`  : `serde::Serializer` that records
//!               `StructBegin(name,len) | Field(name) | F64(bits) | F32(bits) | StructEnd`
//!               into a fixed-size array (no heap);
//!   `TokDe`   : `serde::Deserializer` that replays the tokens through
//!               `deserialize_struct -> visit_map`, field identifiers through
//!               `deserialize_identifier -> visit_str`.
//! The error type carries no message (`Error::custom` ignores its argument), so no
//! formatting code is reachable.
//!
//! Proved per type, for ALL bit patterns of every part:
//!   * serialisation succeeds and the token list is exactly
//!     StructBegin(<type name>, <#fields>), (Field(f_i), value_i) for the documented field
//!     names in the documented order, StructEnd -- and nothing else;
//!   * the value token of field i holds the bits of part i;
//!   * deserialising that token list succeeds, consumes every token, and restores every
//!     part bit-for-bit.
//! Bounds: loops are over token count / field count / name length (memcmp of field names,
//! longest name "HyperHyperDual" = 14 bytes): `#[kani::unwind(17)]`, unwinding assertions ON.
use crate::util::*;
use num_dual::*;
use serde::de::{self, DeserializeSeed, MapAccess, Visitor};
use serde::ser::{self, Impossible};
use serde::{Deserialize, Serialize};
use std::fmt;

#[derive(Clone, Copy)]
pub enum Tok {
    StructBegin(&'static str, usize),
    Field(&'static str),
    F64(u64),
    F32(u32),
    StructEnd,
    Empty,
}
pub const CAP: usize = 48;
pub struct Tape {
    pub toks: [Tok; CAP],
    pub len: usize,
}
impl Tape {
    pub fn new() -> Self {
        Tape { toks: [Tok::Empty; CAP], len: 0 }
    }
    fn push(&mut self, t: Tok) -> Result<(), NoMsg> {
        if self.len < CAP {
            self.toks[self.len] = t;
            self.len += 1;
            Ok(())
        } else {
            Err(NoMsg)
        }
    }
}

/// message-free error
#[derive(Debug)]
pub struct NoMsg;
impl fmt::Display for NoMsg {
    fn fmt(&self, _f: &mut fmt::Formatter) -> fmt::Result {
        Ok(())
    }
}
impl std::error::Error for NoMsg {}
impl ser::Error for NoMsg {
    fn custom<T: fmt::Display>(_msg: T) -> Self {
        NoMsg
    }
}
impl de::Error for NoMsg {
    fn custom<T: fmt::Display>(_msg: T) -> Self {
        NoMsg
    }
}

// ------------------------------------------------------------------ serializer
pub struct TokSer<'a>(pub &'a mut Tape);
pub struct TokStruct<'a>(&'a mut Tape);

type No = Impossible<(), NoMsg>;
macro_rules! unsupported {
    ($($f:ident($t:ty)),*) => { $(fn $f(self, _v: $t) -> Result<(), NoMsg> { Err(NoMsg) })* };
}
impl<'a> ser::Serializer for TokSer<'a> {
    type Ok = ();
    type Error = NoMsg;
    type SerializeSeq = No;
    type SerializeTuple = No;
    type SerializeTupleStruct = No;
    type SerializeTupleVariant = No;
    type SerializeMap = No;
    type SerializeStruct = TokStruct<'a>;
    type SerializeStructVariant = No;

    unsupported!(
        serialize_bool(bool),
        serialize_i8(i8),
        serialize_i16(i16),
        serialize_i32(i32),
        serialize_i64(i64),
        serialize_u8(u8),
        serialize_u16(u16),
        serialize_u32(u32),
        serialize_u64(u64),
        serialize_char(char),
        serialize_str(&str),
        serialize_bytes(&[u8])
    );
    fn serialize_f32(self, v: f32) -> Result<(), NoMsg> {
        self.0.push(Tok::F32(v.to_bits()))
    }
    fn serialize_f64(self, v: f64) -> Result<(), NoMsg> {
        self.0.push(Tok::F64(v.to_bits()))
    }
    fn serialize_none(self) -> Result<(), NoMsg> {
        Err(NoMsg)
    }
    fn serialize_some<T: ?Sized + Serialize>(self, _v: &T) -> Result<(), NoMsg> {
        Err(NoMsg)
    }
    fn serialize_unit(self) -> Result<(), NoMsg> {
        Err(NoMsg)
    }
    fn serialize_unit_struct(self, _n: &'static str) -> Result<(), NoMsg> {
        Err(NoMsg)
    }
    fn serialize_unit_variant(self, _n: &'static str, _i: u32, _v: &'static str) -> Result<(), NoMsg> {
        Err(NoMsg)
    }
    fn serialize_newtype_struct<T: ?Sized + Serialize>(self, _n: &'static str, _v: &T) -> Result<(), NoMsg> {
        Err(NoMsg)
    }
    fn serialize_newtype_variant<T: ?Sized + Serialize>(
        self,
        _n: &'static str,
        _i: u32,
        _v: &'static str,
        _val: &T,
    ) -> Result<(), NoMsg> {
        Err(NoMsg)
    }
    fn serialize_seq(self, _l: Option<usize>) -> Result<No, NoMsg> {
        Err(NoMsg)
    }
    fn serialize_tuple(self, _l: usize) -> Result<No, NoMsg> {
        Err(NoMsg)
    }
    fn serialize_tuple_struct(self, _n: &'static str, _l: usize) -> Result<No, NoMsg> {
        Err(NoMsg)
    }
    fn serialize_tuple_variant(self, _n: &'static str, _i: u32, _v: &'static str, _l: usize) -> Result<No, NoMsg> {
        Err(NoMsg)
    }
    fn serialize_map(self, _l: Option<usize>) -> Result<No, NoMsg> {
        Err(NoMsg)
    }
    fn serialize_struct(self, name: &'static str, len: usize) -> Result<TokStruct<'a>, NoMsg> {
        self.0.push(Tok::StructBegin(name, len))?;
        Ok(TokStruct(self.0))
    }
    fn serialize_struct_variant(self, _n: &'static str, _i: u32, _v: &'static str, _l: usize) -> Result<No, NoMsg> {
        Err(NoMsg)
    }
}
impl<'a> ser::SerializeStruct for TokStruct<'a> {
    type Ok = ();
    type Error = NoMsg;
    fn serialize_field<T: ?Sized + Serialize>(&mut self, key: &'static str, value: &T) -> Result<(), NoMsg> {
        self.0.push(Tok::Field(key))?;
        value.serialize(TokSer(&mut *self.0))
    }
    fn end(self) -> Result<(), NoMsg> {
        self.0.push(Tok::StructEnd)
    }
}

// ------------------------------------------------------------------ deserializer
pub struct TokDe<'a> {
    pub tape: &'a Tape,
    pub pos: usize,
}
impl<'a> TokDe<'a> {
    fn peek(&self) -> Tok {
        if self.pos < self.tape.len {
            self.tape.toks[self.pos]
        } else {
            Tok::Empty
        }
    }
    fn next(&mut self) -> Tok {
        let t = self.peek();
        self.pos += 1;
        t
    }
}
impl<'de, 'a, 'b> de::Deserializer<'de> for &'b mut TokDe<'a> {
    type Error = NoMsg;
    fn deserialize_any<V: Visitor<'de>>(self, _v: V) -> Result<V::Value, NoMsg> {
        Err(NoMsg)
    }
    fn deserialize_f64<V: Visitor<'de>>(self, v: V) -> Result<V::Value, NoMsg> {
        match self.next() {
            Tok::F64(b) => v.visit_f64(f64::from_bits(b)),
            _ => Err(NoMsg),
        }
    }
    fn deserialize_f32<V: Visitor<'de>>(self, v: V) -> Result<V::Value, NoMsg> {
        match self.next() {
            Tok::F32(b) => v.visit_f32(f32::from_bits(b)),
            _ => Err(NoMsg),
        }
    }
    fn deserialize_struct<V: Visitor<'de>>(
        self,
        name: &'static str,
        _fields: &'static [&'static str],
        v: V,
    ) -> Result<V::Value, NoMsg> {
        match self.next() {
            Tok::StructBegin(n, _) if n == name => {}
            _ => return Err(NoMsg),
        }
        let value = v.visit_map(TokMap { de: &mut *self })?;
        match self.next() {
            Tok::StructEnd => Ok(value),
            _ => Err(NoMsg),
        }
    }
    fn deserialize_identifier<V: Visitor<'de>>(self, v: V) -> Result<V::Value, NoMsg> {
        match self.next() {
            Tok::Field(s) => v.visit_str(s),
            _ => Err(NoMsg),
        }
    }
    serde::forward_to_deserialize_any! {
        bool i8 i16 i32 i64 i128 u8 u16 u32 u64 u128 char str string
        bytes byte_buf option unit unit_struct newtype_struct seq tuple
        tuple_struct map enum ignored_any
    }
}
struct TokMap<'b, 'a> {
    de: &'b mut TokDe<'a>,
}
impl<'de, 'a, 'b> MapAccess<'de> for TokMap<'b, 'a> {
    type Error = NoMsg;
    fn next_key_seed<K: DeserializeSeed<'de>>(&mut self, seed: K) -> Result<Option<K::Value>, NoMsg> {
        match self.de.peek() {
            Tok::Field(_) => seed.deserialize(&mut *self.de).map(Some),
            _ => Ok(None),
        }
    }
    fn next_value_seed<S: DeserializeSeed<'de>>(&mut self, seed: S) -> Result<S::Value, NoMsg> {
        seed.deserialize(&mut *self.de)
    }
}

// ------------------------------------------------------------------ token predicates
fn is_begin(t: Tok, name: &str, len: usize) -> bool {
    match t {
        Tok::StructBegin(n, l) => n == name && l == len,
        _ => false,
    }
}
fn is_field(t: Tok, name: &str) -> bool {
    match t {
        Tok::Field(n) => n == name,
        _ => false,
    }
}
fn is_f64(t: Tok, v: f64) -> bool {
    match t {
        Tok::F64(b) => b == v.to_bits(),
        _ => false,
    }
}
fn is_f32(t: Tok, v: f32) -> bool {
    match t {
        Tok::F32(b) => b == v.to_bits(),
        _ => false,
    }
}
fn is_end(t: Tok) -> bool {
    matches!(t, Tok::StructEnd)
}

// ------------------------------------------------------------------ harnesses
/// flat struct of f64/f32 parts: tokens are Begin, (Field, value)*, End
macro_rules! serde_harness {
    ($name:ident, $ty:ty, $mk:expr, $sname:literal, $isv:ident, $bits:ident, [$($idx:literal : $f:ident : $fname:literal),*], $n:literal) => {
        #[kani::proof]
        #[kani::unwind(17)]
        fn $name() {
            let x: $ty = $mk;
            let mut tape = Tape::new();
            let r = x.serialize(TokSer(&mut tape));
            assert!(r.is_ok(), "serialize succeeds");
            assert!(tape.len == 2 + 2 * $n, "token count == 2 + 2 * #fields (nothing else is emitted)");
            assert!(is_begin(tape.toks[0], $sname, $n), "token 0 == StructBegin(<type name>, #fields)");
            $(
                assert!(is_field(tape.toks[1 + 2 * $idx], $fname), "field names are the documented ones, in the documented order");
                assert!($isv(tape.toks[2 + 2 * $idx], x.$f), "the value token after each field name holds the bits of that part");
            )*
            assert!(is_end(tape.toks[1 + 2 * $n]), "last token == StructEnd");

            let mut de = TokDe { tape: &tape, pos: 0 };
            let y = <$ty as Deserialize>::deserialize(&mut de);
            match y {
                Ok(y) => {
                    $( assert!($bits(y.$f) == $bits(x.$f), "round trip restores every part bit-for-bit"); )*
                    assert!(de.pos == tape.len, "deserialize consumes every token");
                }
                Err(_) => assert!(false, "deserialize succeeds on the serialized tokens"),
            }
        }
    };
}
serde_harness!(c16_serde_dual64, Dual64, any_dual64(), "Dual", is_f64, b64, [0: re: "re", 1: eps: "eps"], 2);
serde_harness!(c16_serde_dual32, Dual32, Dual32::new(kani::any(), kani::any()), "Dual", is_f32, b32, [0: re: "re", 1: eps: "eps"], 2);
serde_harness!(c16_serde_dual2_64, Dual2_64, any_dual2_64(), "Dual2", is_f64, b64, [0: re: "re", 1: v1: "v1", 2: v2: "v2"], 3);
serde_harness!(c16_serde_dual3_64, Dual3_64, any_dual3_64(), "Dual3", is_f64, b64, [0: re: "re", 1: v1: "v1", 2: v2: "v2", 3: v3: "v3"], 4);
serde_harness!(c16_serde_hyperdual64, HyperDual64, any_hyperdual64(), "HyperDual", is_f64, b64,
    [0: re: "re", 1: eps1: "eps1", 2: eps2: "eps2", 3: eps1eps2: "eps1eps2"], 4);
serde_harness!(c16_serde_hyperhyperdual64, HyperHyperDual64, any_hyperhyperdual64(), "HyperHyperDual", is_f64, b64,
    [0: re: "re", 1: eps1: "eps1", 2: eps2: "eps2", 3: eps3: "eps3", 4: eps1eps2: "eps1eps2", 5: eps1eps3: "eps1eps3",
     6: eps2eps3: "eps2eps3", 7: eps1eps2eps3: "eps1eps2eps3"], 8);

/// nested: Dual2<Dual64, f64> -- each part is itself a serialized `Dual`
#[kani::proof]
#[kani::unwind(17)]
fn c16_serde_nested_dual2_dual64() {
    let x: Dual2<Dual64, f64> = Dual2::new(any_dual64(), any_dual64(), any_dual64());
    let mut tape = Tape::new();
    let r = x.serialize(TokSer(&mut tape));
    assert!(r.is_ok(), "serialize succeeds");
    // Begin, 3 x (Field, [Begin, Field, v, Field, v, End]), End
    assert!(tape.len == 2 + 3 * 7, "nested token count == 23");
    assert!(is_begin(tape.toks[0], "Dual2", 3), "outer StructBegin(Dual2, 3)");
    let parts = [x.re, x.v1, x.v2];
    let names = ["re", "v1", "v2"];
    let mut k = 0;
    while k < 3 {
        let o = 1 + 7 * k;
        assert!(is_field(tape.toks[o], names[k]), "outer field names re, v1, v2 in order");
        assert!(is_begin(tape.toks[o + 1], "Dual", 2), "inner StructBegin(Dual, 2)");
        assert!(is_field(tape.toks[o + 2], "re") && is_f64(tape.toks[o + 3], parts[k].re), "inner re");
        assert!(is_field(tape.toks[o + 4], "eps") && is_f64(tape.toks[o + 5], parts[k].eps), "inner eps");
        assert!(is_end(tape.toks[o + 6]), "inner StructEnd");
        k += 1;
    }
    assert!(is_end(tape.toks[22]), "outer StructEnd");
    let mut de = TokDe { tape: &tape, pos: 0 };
    match <Dual2<Dual64, f64> as Deserialize>::deserialize(&mut de) {
        Ok(y) => {
            assert!(b64(y.re.re) == b64(x.re.re) && b64(y.re.eps) == b64(x.re.eps), "round trip restores re");
            assert!(b64(y.v1.re) == b64(x.v1.re) && b64(y.v1.eps) == b64(x.v1.eps), "round trip restores v1");
            assert!(b64(y.v2.re) == b64(x.v2.re) && b64(y.v2.eps) == b64(x.v2.eps), "round trip restores v2");
            assert!(de.pos == tape.len, "deserialize consumes every token");
        }
        Err(_) => assert!(false, "deserialize succeeds on the serialized tokens"),
    }
}
