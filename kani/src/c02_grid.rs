//! C02 (BOUNDED GRID): `*` and `/` are exact on a small dyadic grid.
//!
//! Bound: every part of every operand is an integer in -4..=4 (symbolic `i8`, converted to
//! f64); the real part of a divisor is one of {+-1, +-2, +-4, +-0.5}.  On this grid every
//! intermediate value is a dyadic rational with a handful of significant bits, so all float
//! operations are exact and the float results must equal the rational results.
//!   * product: every part == the Leibniz formula evaluated in i64, converted to f64;
//!   * quotient q = a / b:   q * b == a   part by part.
//! Comparison is float `==` (so -0.0 == +0.0).  Loop-free.  Default checks (incl. CBMC's
//! NaN/float-overflow instrumentation: no NaN or overflow can arise on the grid).
use num_dual::*;

fn g() -> (i64, f64) {
    let i: i8 = kani::any();
    kani::assume(-4 <= i && i <= 4);
    (i as i64, i as f64)
}
/// divisor real part: +-1, +-2, +-4, +-0.5
fn gdiv() -> f64 {
    let k: u8 = kani::any();
    kani::assume(k < 8);
    [1.0, -1.0, 2.0, -2.0, 4.0, -4.0, 0.5, -0.5][k as usize]
}
fn f(i: i64) -> f64 {
    i as f64
}

// ------------------------------------------------------------------ Dual64
#[kani::proof]
fn c02_grid_mul_dual64() {
    let ((a0, fa0), (a1, fa1)) = (g(), g());
    let ((b0, fb0), (b1, fb1)) = (g(), g());
    let p = Dual64::new(fa0, fa1) * Dual64::new(fb0, fb1);
    assert!(p.re == f(a0 * b0), "Dual64 product: re == a0*b0");
    assert!(p.eps == f(a1 * b0 + a0 * b1), "Dual64 product: eps == a1*b0 + a0*b1");
}
#[kani::proof]
fn c02_grid_div_dual64() {
    let ((_, fa0), (_, fa1)) = (g(), g());
    let (fb0, (_, fb1)) = (gdiv(), g());
    let a = Dual64::new(fa0, fa1);
    let b = Dual64::new(fb0, fb1);
    let q = a / b;
    let r = q * b;
    assert!(r.re == a.re, "Dual64 (a/b)*b: re == a.re");
    assert!(r.eps == a.eps, "Dual64 (a/b)*b: eps == a.eps");
}

// ------------------------------------------------------------------ Dual2_64
#[kani::proof]
fn c02_grid_mul_dual2_64() {
    let ((a0, x0), (a1, x1), (a2, x2)) = (g(), g(), g());
    let ((b0, y0), (b1, y1), (b2, y2)) = (g(), g(), g());
    let p = Dual2_64::new(x0, x1, x2) * Dual2_64::new(y0, y1, y2);
    assert!(p.re == f(a0 * b0), "Dual2 product: re");
    assert!(p.v1 == f(a1 * b0 + a0 * b1), "Dual2 product: v1 == a1*b0 + a0*b1");
    assert!(p.v2 == f(a2 * b0 + 2 * a1 * b1 + a0 * b2), "Dual2 product: v2 == a2*b0 + 2*a1*b1 + a0*b2");
}
#[kani::proof]
fn c02_grid_div_dual2_64() {
    let ((_, x0), (_, x1), (_, x2)) = (g(), g(), g());
    let (y0, (_, y1), (_, y2)) = (gdiv(), g(), g());
    let a = Dual2_64::new(x0, x1, x2);
    let b = Dual2_64::new(y0, y1, y2);
    let r = (a / b) * b;
    assert!(r.re == a.re, "Dual2 (a/b)*b: re");
    assert!(r.v1 == a.v1, "Dual2 (a/b)*b: v1");
    assert!(r.v2 == a.v2, "Dual2 (a/b)*b: v2");
}

// ------------------------------------------------------------------ HyperDual64
#[kani::proof]
fn c02_grid_mul_hyperdual64() {
    let ((a0, x0), (a1, x1), (a2, x2), (a12, x12)) = (g(), g(), g(), g());
    let ((b0, y0), (b1, y1), (b2, y2), (b12, y12)) = (g(), g(), g(), g());
    let p = HyperDual64::new(x0, x1, x2, x12) * HyperDual64::new(y0, y1, y2, y12);
    assert!(p.re == f(a0 * b0), "HyperDual product: re");
    assert!(p.eps1 == f(a1 * b0 + a0 * b1), "HyperDual product: eps1");
    assert!(p.eps2 == f(a2 * b0 + a0 * b2), "HyperDual product: eps2");
    assert!(
        p.eps1eps2 == f(a12 * b0 + a1 * b2 + a2 * b1 + a0 * b12),
        "HyperDual product: eps1eps2 == a12*b0 + a1*b2 + a2*b1 + a0*b12"
    );
}
#[kani::proof]
fn c02_grid_div_hyperdual64() {
    let ((_, x0), (_, x1), (_, x2), (_, x12)) = (g(), g(), g(), g());
    let (y0, (_, y1), (_, y2), (_, y12)) = (gdiv(), g(), g(), g());
    let a = HyperDual64::new(x0, x1, x2, x12);
    let b = HyperDual64::new(y0, y1, y2, y12);
    let r = (a / b) * b;
    assert!(r.re == a.re, "HyperDual (a/b)*b: re");
    assert!(r.eps1 == a.eps1, "HyperDual (a/b)*b: eps1");
    assert!(r.eps2 == a.eps2, "HyperDual (a/b)*b: eps2");
    assert!(r.eps1eps2 == a.eps1eps2, "HyperDual (a/b)*b: eps1eps2");
}

// ------------------------------------------------------------------ Dual3_64
#[kani::proof]
fn c02_grid_mul_dual3_64() {
    let ((a0, x0), (a1, x1), (a2, x2), (a3, x3)) = (g(), g(), g(), g());
    let ((b0, y0), (b1, y1), (b2, y2), (b3, y3)) = (g(), g(), g(), g());
    let p = Dual3_64::new(x0, x1, x2, x3) * Dual3_64::new(y0, y1, y2, y3);
    assert!(p.re == f(a0 * b0), "Dual3 product: re");
    assert!(p.v1 == f(a1 * b0 + a0 * b1), "Dual3 product: v1");
    assert!(p.v2 == f(a2 * b0 + 2 * a1 * b1 + a0 * b2), "Dual3 product: v2");
    assert!(
        p.v3 == f(a3 * b0 + 3 * a2 * b1 + 3 * a1 * b2 + a0 * b3),
        "Dual3 product: v3 == a3*b0 + 3*a2*b1 + 3*a1*b2 + a0*b3"
    );
}
/// Dual3 quotient, one part per harness (an all-parts harness did not finish in 25 min,
/// neither with cadical nor with kissat):
/// part v_k of (a/b)*b only depends on parts 0..=k of a and b, so CBMC's slicer removes the rest.
macro_rules! div_dual3_part {
    ($name:ident, $part:ident, $msg:literal) => {
        #[kani::proof]
        fn $name() {
            let ((_, x0), (_, x1), (_, x2), (_, x3)) = (g(), g(), g(), g());
            let (y0, (_, y1), (_, y2), (_, y3)) = (gdiv(), g(), g(), g());
            let a = Dual3_64::new(x0, x1, x2, x3);
            let b = Dual3_64::new(y0, y1, y2, y3);
            let r = (a / b) * b;
            assert!(r.$part == a.$part, $msg);
        }
    };
}
div_dual3_part!(c02_grid_div_dual3_64_re, re, "Dual3 (a/b)*b: re");
div_dual3_part!(c02_grid_div_dual3_64_v1, v1, "Dual3 (a/b)*b: v1");
div_dual3_part!(c02_grid_div_dual3_64_v2, v2, "Dual3 (a/b)*b: v2");
// v3 on the full grid hit the 2400 s harness timeout; it is run on a REDUCED grid instead:
// parts in -2..=2, divisor real part in {+-1, +-2, +-0.5}.
fn g2() -> f64 {
    let i: i8 = kani::any();
    kani::assume(-2 <= i && i <= 2);
    i as f64
}
#[kani::proof]
fn c02_grid_div_dual3_64_v3_small() {
    let k: u8 = kani::any();
    kani::assume(k < 6);
    let y0 = [1.0, -1.0, 2.0, -2.0, 0.5, -0.5][k as usize];
    let a = Dual3_64::new(g2(), g2(), g2(), g2());
    let b = Dual3_64::new(y0, g2(), g2(), g2());
    let r = (a / b) * b;
    assert!(r.v3 == a.v3, "Dual3 (a/b)*b: v3 (reduced grid)");
}

// ------------------------------------------------------------------ HyperHyperDual64
#[kani::proof]
fn c02_grid_mul_hyperhyperdual64() {
    let ((a0, x0), (a1, x1), (a2, x2), (a3, x3)) = (g(), g(), g(), g());
    let ((a12, x12), (a13, x13), (a23, x23), (a123, x123)) = (g(), g(), g(), g());
    let ((b0, y0), (b1, y1), (b2, y2), (b3, y3)) = (g(), g(), g(), g());
    let ((b12, y12), (b13, y13), (b23, y23), (b123, y123)) = (g(), g(), g(), g());
    let p = HyperHyperDual64::new(x0, x1, x2, x3, x12, x13, x23, x123)
        * HyperHyperDual64::new(y0, y1, y2, y3, y12, y13, y23, y123);
    assert!(p.re == f(a0 * b0), "HyperHyperDual product: re");
    assert!(p.eps1 == f(a1 * b0 + a0 * b1), "HyperHyperDual product: eps1");
    assert!(p.eps2 == f(a2 * b0 + a0 * b2), "HyperHyperDual product: eps2");
    assert!(p.eps3 == f(a3 * b0 + a0 * b3), "HyperHyperDual product: eps3");
    assert!(p.eps1eps2 == f(a12 * b0 + a1 * b2 + a2 * b1 + a0 * b12), "HyperHyperDual product: eps1eps2");
    assert!(p.eps1eps3 == f(a13 * b0 + a1 * b3 + a3 * b1 + a0 * b13), "HyperHyperDual product: eps1eps3");
    assert!(p.eps2eps3 == f(a23 * b0 + a2 * b3 + a3 * b2 + a0 * b23), "HyperHyperDual product: eps2eps3");
    assert!(
        p.eps1eps2eps3
            == f(a123 * b0 + a1 * b23 + a2 * b13 + a3 * b12 + a23 * b1 + a13 * b2 + a12 * b3 + a0 * b123),
        "HyperHyperDual product: eps1eps2eps3 (8-term Leibniz sum)"
    );
}
/// HyperHyperDual quotient, one part per harness (an all-parts harness did not finish in
/// 25 min).  Only the real and the three first-order parts are tractable: the second-order
/// part eps1eps2 and the third-order part eps1eps2eps3 each hit the 2400 s harness timeout
/// (cadical) and are NOT covered (eps1eps3 / eps2eps3 are the same formula by symmetry).
macro_rules! div_hhd_part {
    ($name:ident, $part:ident, $msg:literal) => {
        #[kani::proof]
        fn $name() {
            let ((_, x0), (_, x1), (_, x2), (_, x3)) = (g(), g(), g(), g());
            let ((_, x12), (_, x13), (_, x23), (_, x123)) = (g(), g(), g(), g());
            let (y0, (_, y1), (_, y2), (_, y3)) = (gdiv(), g(), g(), g());
            let ((_, y12), (_, y13), (_, y23), (_, y123)) = (g(), g(), g(), g());
            let a = HyperHyperDual64::new(x0, x1, x2, x3, x12, x13, x23, x123);
            let b = HyperHyperDual64::new(y0, y1, y2, y3, y12, y13, y23, y123);
            let r = (a / b) * b;
            assert!(r.$part == a.$part, $msg);
        }
    };
}
div_hhd_part!(c02_grid_div_hyperhyperdual64_re, re, "HyperHyperDual (a/b)*b: re");
div_hhd_part!(c02_grid_div_hyperhyperdual64_eps1, eps1, "HyperHyperDual (a/b)*b: eps1");
div_hhd_part!(c02_grid_div_hyperhyperdual64_eps2, eps2, "HyperHyperDual (a/b)*b: eps2");
div_hhd_part!(c02_grid_div_hyperhyperdual64_eps3, eps3, "HyperHyperDual (a/b)*b: eps3");
