//! C06 (part 2): predicates, abs/signum, min/max/clamp are decided by the real part.
//! All harnesses are loop-free over the full f64 bit-pattern domain unless stated.
use crate::util::*;
use nalgebra::RealField;
use num_dual::*;
use num_traits::{One, Signed, Zero};

// ---------------------------------------------------------------- predicates, 8 types
macro_rules! pred_harness {
    ($name:ident, $mk:expr) => {
        #[kani::proof]
        fn $name() {
            let a = $mk;
            let x: f64 = a.re;
            // against the float predicate of num_traits on the real part ...
            assert!(Zero::is_zero(&a) == Zero::is_zero(&x), "is_zero == re.is_zero()");
            assert!(One::is_one(&a) == One::is_one(&x), "is_one == re.is_one()");
            assert!(Signed::is_positive(&a) == Signed::is_positive(&x), "is_positive == re.is_positive()");
            assert!(Signed::is_negative(&a) == Signed::is_negative(&x), "is_negative == re.is_negative()");
            // ... and against an independent statement of that predicate
            assert!(Zero::is_zero(&a) == (x == 0.0), "is_zero <=> re == 0.0");
            assert!(One::is_one(&a) == (x == 1.0), "is_one <=> re == 1.0");
            assert!(Signed::is_positive(&a) == (b64(x) >> 63 == 0), "is_positive <=> sign bit of re clear");
            assert!(Signed::is_negative(&a) == (b64(x) >> 63 == 1), "is_negative <=> sign bit of re set");
        }
    };
}
pred_harness!(c06_pred_dual64, any_dual64());
pred_harness!(c06_pred_dual2_64, any_dual2_64());
pred_harness!(c06_pred_dual3_64, any_dual3_64());
pred_harness!(c06_pred_hyperdual64, any_hyperdual64());
pred_harness!(c06_pred_hyperhyperdual64, any_hyperhyperdual64());
pred_harness!(c06_pred_dualsvec64_2, any_dualsvec64::<2>());
pred_harness!(c06_pred_dual2svec64_2, any_dual2svec64::<2>());
pred_harness!(c06_pred_hyperdualsvec64_2_2, any_hyperdualsvec64::<2, 2>());

// ---------------------------------------------------------------- "same value" helpers
pub trait Parts {
    /// bit-exact equality of all parts (absent/present distinguished for vector types)
    fn same(&self, o: &Self) -> bool;
    /// bit-exact: self == -o in every part
    fn is_neg_of(&self, o: &Self) -> bool;
    /// all derivative parts are zero (value comparison: -0.0 counts) or absent
    fn parts_zero(&self) -> bool;
}
macro_rules! scalar_parts {
    ($t:ty, [$($f:ident),*]) => {
        impl Parts for $t {
            fn same(&self, o: &Self) -> bool {
                b64(self.re) == b64(o.re) $(&& b64(self.$f) == b64(o.$f))*
            }
            fn is_neg_of(&self, o: &Self) -> bool {
                b64(self.re) == b64(-o.re) $(&& b64(self.$f) == b64(-o.$f))*
            }
            fn parts_zero(&self) -> bool {
                true $(&& self.$f == 0.0)*
            }
        }
    };
}
scalar_parts!(Dual64, [eps]);
scalar_parts!(Dual2_64, [v1, v2]);
scalar_parts!(Dual3_64, [v1, v2, v3]);
scalar_parts!(HyperDual64, [eps1, eps2, eps1eps2]);
scalar_parts!(HyperHyperDual64, [eps1, eps2, eps3, eps1eps2, eps1eps3, eps2eps3, eps1eps2eps3]);

macro_rules! vec_parts {
    ($t:ty, [$($n:ident),*], [$($f:ident),*]) => {
        impl<$(const $n: usize),*> Parts for $t {
            fn same(&self, o: &Self) -> bool {
                b64(self.re) == b64(o.re) $(&& deriv_same(&self.$f, &o.$f))*
            }
            fn is_neg_of(&self, o: &Self) -> bool {
                b64(self.re) == b64(-o.re) $(&& deriv_is_neg(&self.$f, &o.$f))*
            }
            fn parts_zero(&self) -> bool {
                // the library builds +-one()/zero() with *absent* derivative parts
                true $(&& is_absent(&self.$f))*
            }
        }
    };
}
vec_parts!(DualSVec64<N>, [N], [eps]);
vec_parts!(Dual2SVec64<N>, [N], [v1, v2]);
vec_parts!(HyperDualSVec64<M, N>, [M, N], [eps1, eps2, eps1eps2]);

// ---------------------------------------------------------------- abs / signum, 8 types
// Domain: re not NaN and re != +-0 (stated in the property).  For reference, the code's
// behaviour outside: re == +0.0 counts as positive (abs = self, signum = one()), re == -0.0
// gives abs = -self, signum = zero(); NaN follows its sign bit.
macro_rules! abs_signum_harness {
    ($name:ident, $mk:expr) => {
        #[kani::proof]
        fn $name() {
            let a = $mk;
            let x: f64 = a.re;
            kani::assume(!x.is_nan() && x != 0.0);
            let ab = Signed::abs(&a);
            let sg = Signed::signum(&a);
            if x > 0.0 {
                assert!(ab.same(&a), "abs(self) == self when re > 0 (all parts, bit-exact)");
                assert!(b64(sg.re) == b64(1.0), "signum.re == 1 when re > 0");
            } else {
                assert!(ab.is_neg_of(&a), "abs(self) == -self when re < 0 (all parts, bit-exact)");
                assert!(b64(sg.re) == b64(-1.0), "signum.re == -1 when re < 0");
            }
            assert!(sg.parts_zero(), "signum has zero/absent derivative parts");
        }
    };
}
abs_signum_harness!(c06_abs_signum_dual64, any_dual64());
abs_signum_harness!(c06_abs_signum_dual2_64, any_dual2_64());
abs_signum_harness!(c06_abs_signum_dual3_64, any_dual3_64());
abs_signum_harness!(c06_abs_signum_hyperdual64, any_hyperdual64());
abs_signum_harness!(c06_abs_signum_hyperhyperdual64, any_hyperhyperdual64());
abs_signum_harness!(c06_abs_signum_dualsvec64_2, any_dualsvec64::<2>());
abs_signum_harness!(c06_abs_signum_dual2svec64_2, any_dual2svec64::<2>());
abs_signum_harness!(c06_abs_signum_hyperdualsvec64_2_2, any_hyperdualsvec64::<2, 2>());

// ---------------------------------------------------------------- min / max / clamp (RealField)
// Domain: real parts not NaN (stated).  The result must be one of the operands, bit for bit in
// every part (incl. absent/present), chosen by comparing real parts only.
macro_rules! minmax_harness {
    ($name:ident, $mk:expr) => {
        #[kani::proof]
        fn $name() {
            let a = $mk;
            let b = $mk;
            let c = $mk;
            kani::assume(!a.re.is_nan() && !b.re.is_nan() && !c.re.is_nan());
            let mx = RealField::max(a.clone(), b.clone());
            let mn = RealField::min(a.clone(), b.clone());
            if b.re > a.re {
                assert!(mx.same(&b), "max(a,b) is b (all parts) when b.re > a.re");
            } else {
                assert!(mx.same(&a), "max(a,b) is a (all parts) when !(b.re > a.re)");
            }
            if b.re < a.re {
                assert!(mn.same(&b), "min(a,b) is b (all parts) when b.re < a.re");
            } else {
                assert!(mn.same(&a), "min(a,b) is a (all parts) when !(b.re < a.re)");
            }
            // clamp(x = a, lo = b, hi = c); no ordering of lo/hi is assumed
            let cl = RealField::clamp(a.clone(), b.clone(), c.clone());
            if a.re < b.re {
                assert!(cl.same(&b), "clamp(x,lo,hi) is lo (all parts) when x.re < lo.re");
            } else if a.re > c.re {
                assert!(cl.same(&c), "clamp(x,lo,hi) is hi (all parts) when x.re > hi.re");
            } else {
                assert!(cl.same(&a), "clamp(x,lo,hi) is x (all parts) otherwise");
            }
        }
    };
}
minmax_harness!(c06_minmax_clamp_dual64, any_dual64());
minmax_harness!(c06_minmax_clamp_dual2_64, any_dual2_64());
minmax_harness!(c06_minmax_clamp_dualsvec64_2, any_dualsvec64::<2>());
minmax_harness!(c06_minmax_clamp_dual2svec64_2, any_dual2svec64::<2>());
