//! Kani harnesses for the num-dual verification framework.
//! Everything lives under `#[cfg(kani)]`; the crate is empty for a normal build.
#![allow(clippy::all)]
#![allow(dead_code, unused_imports, unused_macros)]

#[cfg(kani)]
#[macro_use]
mod util;

#[cfg(kani)]
mod c02_grid;
#[cfg(kani)]
mod c04_nderiv;
#[cfg(kani)]
mod c05_drivers;
#[cfg(kani)]
mod c06_cmp;
#[cfg(kani)]
mod c06_nonint;
#[cfg(kani)]
mod c06_pred;
#[cfg(kani)]
mod c11_field;
#[cfg(kani)]
mod c13_convert;
#[cfg(all(kani, feature = "serde"))]
mod c16_serde;
