//! C03 (iterator part): `Sum`, `Sum<&Self>`, `Product`, `Product<&Self>` (`impl_iterator!`,
//! src/macros.rs) are exactly the left folds over the binary operators,
//!     sum     == ((zero() + x0) + x1) + x2        product == ((one() * x0) * x1) * x2
//! bit for bit in every part (a NaN part is required to be NaN on both sides: the payload of an
//! arithmetic NaN is unspecified), and give zero() / one() for an empty iterator.  This ties the
//! iterator impls to `+` and `*`, which are verified elsewhere.
//!
//! Bound: BOUNDED length <= 3 (one harness per type covers lengths 0, 1, 2, 3); the values are
//! fully symbolic (all f64 bit patterns; vector types with symbolically absent derivative).
//! Solver/flags: like c06_nonint ("two copies of the same float adder/multiplier agree"):
//! `#[kani::solver(cvc5)]` and `--no-overflow-checks`.  `#[kani::unwind(5)]` for the iterator
//! loops, unwinding assertions on.
use crate::util::*;
use num_dual::*;
use num_traits::{One, Zero};

fn fsame(x: f64, y: f64) -> bool {
    b64(x) == b64(y) || (x.is_nan() && y.is_nan())
}
pub trait SameNan {
    fn same_nan(&self, o: &Self) -> bool;
}
macro_rules! same_nan_scalar {
    ($t:ty, [$($f:ident),*]) => {
        impl SameNan for $t {
            fn same_nan(&self, o: &Self) -> bool {
                fsame(self.re, o.re) $(&& fsame(self.$f, o.$f))*
            }
        }
    };
}
same_nan_scalar!(Dual64, [eps]);
same_nan_scalar!(Dual2_64, [v1, v2]);
same_nan_scalar!(Dual3_64, [v1, v2, v3]);
same_nan_scalar!(HyperDual64, [eps1, eps2, eps1eps2]);
same_nan_scalar!(HyperHyperDual64, [eps1, eps2, eps3, eps1eps2, eps1eps3, eps2eps3, eps1eps2eps3]);
impl<const N: usize> SameNan for DualSVec64<N> {
    fn same_nan(&self, o: &Self) -> bool {
        if !fsame(self.re, o.re) || is_absent(&self.eps) != is_absent(&o.eps) {
            return false;
        }
        let (a, b) = (entries(&self.eps), entries(&o.eps));
        let mut ok = true;
        let mut i = 0;
        while i < N {
            ok &= fsame(a[0][i], b[0][i]);
            i += 1;
        }
        ok
    }
}

macro_rules! iter_harness {
    ($sum:ident, $prod:ident, $ty:ty, $mk:expr) => {
        iter_harness!($sum, $ty, $mk);
        iter_harness!(@prod $prod, $ty, $mk);
    };
    ($sum:ident, $ty:ty, $mk:expr) => {
        #[kani::proof]
        #[kani::solver(cvc5)]
        #[kani::unwind(5)]
        fn $sum() {
            type D = $ty;
            let (x0, x1, x2): (D, D, D) = ($mk, $mk, $mk);
            let z = D::zero();
            // length 0
            let e: [D; 0] = [];
            assert!(e.iter().sum::<D>().same_nan(&z), "sum of an empty iterator (by ref) == zero(), all parts");
            assert!(e.into_iter().sum::<D>().same_nan(&z), "sum of an empty iterator (by value) == zero(), all parts");
            // length 1, 2, 3
            let f1 = z.clone() + x0.clone();
            let f2 = f1.clone() + x1.clone();
            let f3 = f2.clone() + x2.clone();
            let a1 = [x0.clone()];
            let a2 = [x0.clone(), x1.clone()];
            let a3 = [x0.clone(), x1.clone(), x2.clone()];
            assert!(a1.iter().sum::<D>().same_nan(&f1), "len 1: iter().sum() == zero() + x0");
            assert!(a2.iter().sum::<D>().same_nan(&f2), "len 2: iter().sum() == (zero() + x0) + x1");
            assert!(a3.iter().sum::<D>().same_nan(&f3), "len 3: iter().sum() == ((zero() + x0) + x1) + x2");
            assert!(a1.into_iter().sum::<D>().same_nan(&f1), "len 1: into_iter().sum() == zero() + x0");
            assert!(a2.into_iter().sum::<D>().same_nan(&f2), "len 2: into_iter().sum() == (zero() + x0) + x1");
            assert!(a3.into_iter().sum::<D>().same_nan(&f3), "len 3: into_iter().sum() == ((zero() + x0) + x1) + x2");
        }
    };
    (@prod $prod:ident, $ty:ty, $mk:expr) => {
        #[kani::proof]
        #[kani::solver(cvc5)]
        #[kani::unwind(5)]
        fn $prod() {
            type D = $ty;
            let (x0, x1, x2): (D, D, D) = ($mk, $mk, $mk);
            let o = D::one();
            let e: [D; 0] = [];
            assert!(e.iter().product::<D>().same_nan(&o), "product of an empty iterator (by ref) == one(), all parts");
            assert!(e.into_iter().product::<D>().same_nan(&o), "product of an empty iterator (by value) == one(), all parts");
            let f1 = o.clone() * x0.clone();
            let f2 = f1.clone() * x1.clone();
            let f3 = f2.clone() * x2.clone();
            let a1 = [x0.clone()];
            let a2 = [x0.clone(), x1.clone()];
            let a3 = [x0.clone(), x1.clone(), x2.clone()];
            assert!(a1.iter().product::<D>().same_nan(&f1), "len 1: iter().product() == one() * x0");
            assert!(a2.iter().product::<D>().same_nan(&f2), "len 2: iter().product() == (one() * x0) * x1");
            assert!(a3.iter().product::<D>().same_nan(&f3), "len 3: iter().product() == ((one() * x0) * x1) * x2");
            assert!(a1.into_iter().product::<D>().same_nan(&f1), "len 1: into_iter().product() == one() * x0");
            assert!(a2.into_iter().product::<D>().same_nan(&f2), "len 2: into_iter().product() == (one() * x0) * x1");
            assert!(a3.into_iter().product::<D>().same_nan(&f3), "len 3: into_iter().product() == ((one() * x0) * x1) * x2");
        }
    };
}
iter_harness!(c03_iter_sum_dual64, c03_iter_product_dual64, Dual64, any_dual64());
iter_harness!(c03_iter_sum_dual2_64, c03_iter_product_dual2_64, Dual2_64, any_dual2_64());
iter_harness!(c03_iter_sum_hyperdual64, c03_iter_product_hyperdual64, HyperDual64, any_hyperdual64());
iter_harness!(c03_iter_sum_dual3_64, c03_iter_product_dual3_64, Dual3_64, any_dual3_64());
// HyperHyperDual64: the product harness does not finish in 10 min (24 symbolic parts, 8-term
// products) -- only the sum is kept.  DualSVec64<2>: not tractable (CBMC's SMT back end aborts
// on the Option-wrapped derivative, the SAT back end times out on the sum already) -- dropped.
iter_harness!(c03_iter_sum_hyperhyperdual64, HyperHyperDual64, any_hyperhyperdual64());
