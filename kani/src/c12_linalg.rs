//! C12 (BOUNDED stand-in): the crate's own LU routines (`num_dual::linalg::LU`, feature
//! `linalg`) on inputs where no rounding can occur, so that the defining identities hold
//! EXACTLY and are asserted with float `==` in the real AND the derivative part.
//!
//! Bounds (every harness): n = 2 (see the n = 3 note at the end); entries are `Dual64` whose
//! real and eps parts are integers in -2..=2 (symbolic `i8` converted to f64).
//! Pivot assumptions:
//!   * first pivot: the entry of column 0 with the larger |re| (the upper one on ties).  On
//!     this grid it is one of {+-1, +-2}, i.e. a power of two -- IMPLIED by the grid, so the
//!     division by it is exact;
//!   * second pivot u11 = +-det(A.re) / pivot0.re: harnesses that divide by it (solve,
//!     inverse) ASSUME |det(A.re)| in {1, 2, 4, 8} (stated on the integer inputs, no float
//!     recomputation), which makes u11.re a power of two as well.
//! Under these assumptions every intermediate value is a dyadic rational with a handful of
//! significant bits: all float operations are exact.
//! Both the row-exchange path (|a10.re| > |a00.re|) and the no-exchange path are shown
//! reachable with `kani::cover!`.
//! Not covered here: jacobi_eigenvalue / smallest_ev / norm and the nalgebra decompositions;
//! conditioning-scaled tolerances for general (rounding) inputs.
use ndarray::{arr1, arr2, Array1, Array2};
use num_dual::linalg::LU;
use num_dual::*;

/// grid value: integer in -2..=2
fn gi() -> (i64, f64) {
    let i: i8 = kani::any();
    kani::assume(-2 <= i && i <= 2);
    (i as i64, i as f64)
}
/// grid dual: (re, eps) integers, returned also as i64 pair
fn gd() -> ((i64, i64), Dual64) {
    let ((r, fr), (e, fe)) = (gi(), gi());
    ((r, e), Dual64::new(fr, fe))
}
fn deq(a: Dual64, b: Dual64) -> bool {
    a.re == b.re && a.eps == b.eps
}
fn is_pow2_le8(d: i64) -> bool {
    let a = if d < 0 { -d } else { d };
    a == 1 || a == 2 || a == 4 || a == 8
}

struct M2 {
    i: [[(i64, i64); 2]; 2],
    d: [[Dual64; 2]; 2],
}
fn any_m2() -> M2 {
    let (i00, d00) = gd();
    let (i01, d01) = gd();
    let (i10, d10) = gd();
    let (i11, d11) = gd();
    M2 { i: [[i00, i01], [i10, i11]], d: [[d00, d01], [d10, d11]] }
}
impl M2 {
    fn arr(&self) -> Array2<Dual64> {
        arr2(&self.d)
    }
    /// determinant of the real parts, in integers
    fn det_re(&self) -> i64 {
        self.i[0][0].0 * self.i[1][1].0 - self.i[0][1].0 * self.i[1][0].0
    }
    /// eps part of the determinant = Jacobi's formula = d/d(eps) (a00 a11 - a01 a10)
    fn det_eps(&self) -> i64 {
        let m = &self.i;
        m[0][0].1 * m[1][1].0 + m[0][0].0 * m[1][1].1 - m[0][1].1 * m[1][0].0 - m[0][1].0 * m[1][0].1
    }
    /// LU::new exchanges the rows iff |a10.re| > |a00.re|
    fn swaps(&self) -> bool {
        self.i[1][0].0.abs() > self.i[0][0].0.abs()
    }
}

// ------------------------------------------------------------------ (a) singular detection
/// Grid: LU::new(A) is Err  <=>  det(A.re) == 0  (on the grid "some elimination step has only
/// zero candidate pivots" is exactly det(A.re) == 0); on Ok the product of the diagonal of the
/// factorisation (observed through determinant(), the fields are private) has non-zero real
/// part, hence every diagonal entry has.
#[kani::proof]
#[kani::unwind(4)]
fn c12_lu_singular_n2() {
    let m = any_m2();
    let col0_zero = m.i[0][0].0 == 0 && m.i[1][0].0 == 0;
    let r = LU::<Dual64, f64>::new(m.arr());
    kani::cover!(r.is_err() && col0_zero, "singular: column 0 has only zero real parts");
    kani::cover!(r.is_err() && !col0_zero, "singular: second pivot has zero real part");
    kani::cover!(r.is_ok() && m.swaps(), "regular, with row exchange");
    kani::cover!(r.is_ok() && !m.swaps(), "regular, without row exchange");
    match r {
        Err(_) => assert!(m.det_re() == 0, "LU::new returns Err only if the real part is singular (det(A.re) == 0)"),
        Ok(lu) => {
            assert!(m.det_re() != 0, "a matrix whose real part is singular (all candidate pivots zero at some step) is reported as Err");
            assert!(!col0_zero, "an all-zero pivot column in the real part is reported as Err");
            let d = lu.determinant();
            assert!(d.re != 0.0 && d.re.is_finite() && d.eps.is_finite(), "on Ok the diagonal of the factorisation has non-zero, finite real parts (product != 0)");
        }
    }
}

/// Full f64 domain (all bit patterns, NaN/inf/-0 included) for the comparison logic of the first
/// elimination step: if no entry of column 0 has |re| > 0 (zeros or NaN) LU::new returns Err,
/// and Ok implies that some entry of column 0 has |re| > 0.
#[kani::proof]
#[kani::unwind(4)]
fn c12_lu_singular_col0_fulldomain_n2() {
    let d = |_: ()| Dual64::new(kani::any(), kani::any());
    let a = [[d(()), d(())], [d(()), d(())]];
    let c0 = a[0][0].re.abs() > 0.0;
    let c1 = a[1][0].re.abs() > 0.0;
    let r = LU::<Dual64, f64>::new(arr2(&a));
    kani::cover!(r.is_ok(), "full domain: Ok reachable");
    kani::cover!(r.is_err() && (c0 || c1), "full domain: Err at the second step reachable");
    if !c0 && !c1 {
        assert!(r.is_err(), "column 0 without a candidate pivot (|re| > 0 false for both: zero or NaN) => Err");
    }
    if r.is_ok() {
        assert!(c0 || c1, "Ok => column 0 has an entry with |re| > 0");
    }
}

// ------------------------------------------------------------------ exact integer reference
/// dual number with integer parts (reference arithmetic, no floats involved)
#[derive(Clone, Copy)]
struct ID(i64, i64);
impl ID {
    fn mul(self, o: ID) -> ID {
        ID(self.0 * o.0, self.0 * o.1 + self.1 * o.0)
    }
    fn sub(self, o: ID) -> ID {
        ID(self.0 - o.0, self.1 - o.1)
    }
    fn neg(self) -> ID {
        ID(-self.0, -self.1)
    }
}
/// `x == n / d` exactly as dual numbers, for |d.re| in {1,2,4,8}:
///   x.re  = n.re / d.re,   x.eps = (n.eps d.re - n.re d.eps) / d.re^2.
/// Stated without any float division or symbolic float multiplication: both sides are scaled
/// by the constant powers of two 8 resp. 64 (exact) and compared as integers-in-f64.
fn is_quotient(x: Dual64, n: ID, d: ID) -> bool {
    let (s_re, s_eps) = match d.0 {
        1 => (8, 64),
        -1 => (-8, 64),
        2 => (4, 16),
        -2 => (-4, 16),
        4 => (2, 4),
        -4 => (-2, 4),
        8 => (1, 1),
        -8 => (-1, 1),
        _ => return false,
    };
    x.re * 8.0 == (n.0 * s_re) as f64 && x.eps * 64.0 == ((n.1 * d.0 - n.0 * d.1) * s_eps) as f64
}
impl M2 {
    fn id(&self, r: usize, c: usize) -> ID {
        ID(self.i[r][c].0, self.i[r][c].1)
    }
    fn det_id(&self) -> ID {
        self.id(0, 0).mul(self.id(1, 1)).sub(self.id(0, 1).mul(self.id(1, 0)))
    }
}

// The fully symbolic versions of solve/inverse (8 matrix parts + 4 rhs parts symbolic) do not
// finish (CBMC: > 20 min resp. out of memory).  They are therefore split into two bounded
// slices that together exercise every operation of the routines:
//   `_re`  : ALL real parts symbolic on the grid, every eps part == 0 (concrete):
//            the real-part computation incl. pivot search/row exchange for every grid matrix,
//            and "no derivative in => no derivative out";
//   `_eps_tK`: real parts = row K of the concrete table `TAB`, ALL eps parts symbolic on the
//            grid: the derivative computation.  One table row per harness (a single row
//            already costs 1.5 - 5 min: ndarray's heap storage defeats constant folding);
//            rows used: 1 (row exchange, pivot 2, det -2) and 3 (no exchange, pivot -2, det 2).
// The determinant is additionally proved fully symbolic (thorough tier).

/// concrete real parts: (A.re row-major, b.re)
const TAB: [([[i64; 2]; 2], [i64; 2]); 8] = [
    ([[2, 1], [1, 1]], [1, -2]),    // det  1, no exchange, pivot 2
    ([[1, 2], [2, 2]], [2, 1]),     // det -2, exchange,    pivot 2
    ([[0, 1], [-1, 2]], [-1, 2]),   // det  1, exchange (a00 == 0), pivot -1
    ([[-2, 2], [1, -2]], [0, 1]),   // det  2, no exchange, pivot -2
    ([[1, -1], [-1, -1]], [2, 2]),  // det -2, tie |a10| == |a00|: no exchange, pivot 1
    ([[-1, 2], [2, 0]], [1, 1]),    // det -4, exchange,    pivot 2
    ([[2, 0], [0, 2]], [-2, 1]),    // det  4, diagonal
    ([[2, 2], [-2, 2]], [1, 0]),    // det  8, tie: no exchange
];
/// matrix with the real parts of table row `t` and symbolic grid eps parts
fn tab_m2(t: usize) -> M2 {
    let r = TAB[t].0;
    let mut i = [[(0i64, 0i64); 2]; 2];
    let mut d = [[Dual64::new(0.0, 0.0); 2]; 2];
    let mut a = 0;
    while a < 2 {
        let mut b = 0;
        while b < 2 {
            let (e, fe) = gi();
            i[a][b] = (r[a][b], e);
            d[a][b] = Dual64::new(r[a][b] as f64, fe);
            b += 1;
        }
        a += 1;
    }
    M2 { i, d }
}
/// matrix with symbolic grid real parts and eps == 0
fn re_m2() -> M2 {
    let mut i = [[(0i64, 0i64); 2]; 2];
    let mut d = [[Dual64::new(0.0, 0.0); 2]; 2];
    let mut a = 0;
    while a < 2 {
        let mut b = 0;
        while b < 2 {
            let (r, fr) = gi();
            i[a][b] = (r, 0);
            d[a][b] = Dual64::new(fr, 0.0);
            b += 1;
        }
        a += 1;
    }
    M2 { i, d }
}

// ------------------------------------------------------------------ (b) solve
/// x = LU::new(A)?.solve(b) is the exact solution: x_j == (adj(A) b)_j / det(A) as dual numbers
/// (Cramer's rule evaluated in integer dual arithmetic), which for a regular A is the same
/// statement as A x == b in the real and in the eps part.
fn check_solve(m: &M2, ib: [ID; 2]) {
    let b = [Dual64::new(ib[0].0 as f64, ib[0].1 as f64), Dual64::new(ib[1].0 as f64, ib[1].1 as f64)];
    let lu = match LU::<Dual64, f64>::new(m.arr()) {
        Ok(lu) => lu,
        Err(_) => {
            assert!(false, "det(A.re) != 0 => LU::new is Ok");
            return;
        }
    };
    let x: Array1<Dual64> = lu.solve(&arr1(&b));
    let d = m.det_id();
    let n0 = m.id(1, 1).mul(ib[0]).sub(m.id(0, 1).mul(ib[1]));
    let n1 = m.id(0, 0).mul(ib[1]).sub(m.id(1, 0).mul(ib[0]));
    assert!(is_quotient(x[0], n0, d), "solve: x[0] == (a11 b0 - a01 b1) / det(A) exactly, re and eps (<=> A x == b)");
    assert!(is_quotient(x[1], n1, d), "solve: x[1] == (a00 b1 - a10 b0) / det(A) exactly, re and eps (<=> A x == b)");
}
#[kani::proof]
#[kani::unwind(4)]
fn c12_lu_solve_exact_n2_re() {
    let m = re_m2();
    let ((b0, _), (b1, _)) = (gi(), gi());
    kani::assume(is_pow2_le8(m.det_re()));
    kani::cover!(m.swaps(), "solve: row-exchange path");
    kani::cover!(!m.swaps(), "solve: no-exchange path");
    check_solve(&m, [ID(b0, 0), ID(b1, 0)]);
}
fn check_solve_eps(t: usize) {
    let m = tab_m2(t);
    let ((e0, _), (e1, _)) = (gi(), gi());
    check_solve(&m, [ID(TAB[t].1[0], e0), ID(TAB[t].1[1], e1)]);
}
#[kani::proof]
#[kani::unwind(4)]
fn c12_lu_solve_exact_n2_eps_t1() {
    check_solve_eps(1);
}
#[kani::proof]
#[kani::unwind(4)]
fn c12_lu_solve_exact_n2_eps_t3() {
    check_solve_eps(3);
}

// ------------------------------------------------------------------ (c) determinant
/// returns whether LU::new was Ok (used for the reachability goals: a routine that always
/// reports "singular" must not let these harnesses pass vacuously)
fn check_det(m: &M2) -> bool {
    let lu = match LU::<Dual64, f64>::new(m.arr()) {
        Ok(lu) => lu,
        Err(_) => return false, // singular real part: covered by c12_lu_singular_n2
    };
    let d = lu.determinant();
    assert!(d.re == m.det_re() as f64, "determinant().re == a00*a11 - a01*a10 (exact, sign incl. permutation parity)");
    assert!(d.eps == m.det_eps() as f64, "determinant().eps == derivative of a00*a11 - a01*a10 (Jacobi's formula), exact");
    true
}
/// fully symbolic: only the first pivot is divided by, no assumption beyond the grid
#[kani::proof]
#[kani::unwind(4)]
fn c12_lu_det_exact_n2() {
    let m = any_m2();
    let ok = check_det(&m);
    kani::cover!(ok && m.swaps(), "determinant: row-exchange path (sign flipped by the permutation parity)");
    kani::cover!(ok && !m.swaps(), "determinant: no-exchange path");
}
#[kani::proof]
#[kani::unwind(4)]
fn c12_lu_det_exact_n2_re() {
    let m = re_m2();
    let ok = check_det(&m);
    kani::cover!(ok && m.swaps(), "determinant: row-exchange path");
    kani::cover!(ok && !m.swaps(), "determinant: no-exchange path");
}
#[kani::proof]
#[kani::unwind(4)]
fn c12_lu_det_exact_n2_eps_t1() {
    let ok = check_det(&tab_m2(1));
    kani::cover!(ok, "LU::new is Ok for table matrix 1 (row exchange)");
}
#[kani::proof]
#[kani::unwind(4)]
fn c12_lu_det_exact_n2_eps_t3() {
    let ok = check_det(&tab_m2(3));
    kani::cover!(ok, "LU::new is Ok for table matrix 3 (no exchange)");
}

// ------------------------------------------------------------------ (d) inverse
// NOT TRACTABLE IN KANI: `LU::inverse` (2-D `Array2::zeros` + indexed writes) makes CBMC
// exceed 35 GB / 20 min for a SINGLE harness even in the cheapest slice (concrete real
// parts, symbolic eps, one column asserted).  The inverse is therefore covered by the native
// exhaustive enumeration in `c12_native.rs` (label: bounded/test, not a Kani proof).
