//! C06 (part 4): approximate-equality traits and FromPrimitive look at / produce real parts only.
use crate::util::*;
use approx::{AbsDiffEq, RelativeEq, UlpsEq};
use num_dual::*;
use num_traits::FromPrimitive;

// The approx traits are implemented for Dual, Dual2, DualVec, Dual2Vec (not for HyperDual,
// Dual3, HyperHyperDual).  Domain: real parts and tolerances not NaN (ASSUMED); derivative
// parts of the operands AND of the tolerance arguments: all bit patterns.
// "two copies of the same float computation agree" => cvc5, --no-overflow-checks.
macro_rules! approx_harness {
    ($aname:ident, $uname:ident, $rname:ident, $mk:expr) => {
        #[kani::proof]
        fn $aname() {
            let (a, b, eps) = ($mk, $mk, $mk);
            kani::assume(!a.re.is_nan() && !b.re.is_nan() && !eps.re.is_nan());
            assert!(a.abs_diff_eq(&b, eps) == a.re.abs_diff_eq(&b.re, eps.re), "abs_diff_eq == f64::abs_diff_eq on the real parts");
        }
        #[kani::proof]
        fn $uname() {
            let (a, b, eps) = ($mk, $mk, $mk);
            kani::assume(!a.re.is_nan() && !b.re.is_nan() && !eps.re.is_nan());
            let ulps: u32 = kani::any();
            assert!(a.ulps_eq(&b, eps, ulps) == a.re.ulps_eq(&b.re, eps.re, ulps), "ulps_eq == f64::ulps_eq on the real parts");
        }
        /// relative_eq multiplies (`largest * max_relative`); neither the SAT back ends nor cvc5
        /// finish on the full domain (> 5 min), hence BOUNDED: real parts of the operands are
        /// integers in -4..=4, real parts of the tolerances in {0, 0.25, 0.5, 1, 2}; all
        /// derivative parts (operands and tolerances) are arbitrary bit patterns.
        #[kani::proof]
        fn $rname() {
            let (mut a, mut b, mut eps, mut rel) = ($mk, $mk, $mk, $mk);
            let (ia, ib): (i8, i8) = (kani::any(), kani::any());
            kani::assume(-4 <= ia && ia <= 4 && -4 <= ib && ib <= 4);
            let (ke, kr): (u8, u8) = (kani::any(), kani::any());
            kani::assume(ke < 5 && kr < 5);
            const TOL: [f64; 5] = [0.0, 0.25, 0.5, 1.0, 2.0];
            a.re = ia as f64;
            b.re = ib as f64;
            eps.re = TOL[ke as usize];
            rel.re = TOL[kr as usize];
            assert!(a.relative_eq(&b, eps, rel) == a.re.relative_eq(&b.re, eps.re, rel.re), "relative_eq == f64::relative_eq on the real parts");
        }
    };
}
approx_harness!(c06_approx_absdiff_dual64, c06_approx_ulps_dual64, c06_approx_relative_dual64_grid, any_dual64());
approx_harness!(c06_approx_absdiff_dual2_64, c06_approx_ulps_dual2_64, c06_approx_relative_dual2_64_grid, any_dual2_64());

/// default tolerances are real constants
#[kani::proof]
fn c06_approx_defaults() {
    let e = <Dual64 as AbsDiffEq>::default_epsilon();
    assert!(b64(e.re) == b64(<f64 as AbsDiffEq>::default_epsilon()) && b64(e.eps) == 0, "Dual64::default_epsilon() == (f64 default, 0)");
    let r = <Dual64 as RelativeEq>::default_max_relative();
    assert!(b64(r.re) == b64(<f64 as RelativeEq>::default_max_relative()) && b64(r.eps) == 0, "Dual64::default_max_relative() == (f64 default, 0)");
    assert!(<Dual64 as UlpsEq>::default_max_ulps() == <f64 as UlpsEq>::default_max_ulps(), "Dual64::default_max_ulps() == f64 default");
    let e2 = <Dual2_64 as AbsDiffEq>::default_epsilon();
    assert!(b64(e2.re) == b64(<f64 as AbsDiffEq>::default_epsilon()) && b64(e2.v1) == 0 && b64(e2.v2) == 0, "Dual2_64::default_epsilon() == (f64 default, 0, 0)");
}

// FromPrimitive: Some(value) with re == the f64 conversion of the primitive (bit for bit; the
// NaN payload of from_f32/from_f64 excepted) and all derivative parts +0.0.  Full domain of
// every primitive.  Loop-free.
pub trait ReAndParts {
    fn re_(&self) -> f64;
    fn parts_pos_zero(&self) -> bool;
}
impl ReAndParts for Dual64 {
    fn re_(&self) -> f64 {
        self.re
    }
    fn parts_pos_zero(&self) -> bool {
        b64(self.eps) == 0
    }
}
impl ReAndParts for HyperDual64 {
    fn re_(&self) -> f64 {
        self.re
    }
    fn parts_pos_zero(&self) -> bool {
        b64(self.eps1) == 0 && b64(self.eps2) == 0 && b64(self.eps1eps2) == 0
    }
}
fn ok<D: ReAndParts>(got: Option<D>, want: Option<f64>) -> bool {
    match (got, want) {
        (Some(d), Some(w)) => (b64(d.re_()) == b64(w) || (w.is_nan() && d.re_().is_nan())) && d.parts_pos_zero(),
        (None, None) => true,
        _ => false,
    }
}
macro_rules! from_prim_harness {
    ($name:ident, $ty:ty) => {
        #[kani::proof]
        fn $name() {
            type D = $ty;
            macro_rules! chk {
                ($f:ident, $p:ty, $msg:literal) => {{
                    let v: $p = kani::any();
                    assert!(ok(<D as FromPrimitive>::$f(v), <f64 as FromPrimitive>::$f(v)), $msg);
                }};
            }
            chk!(from_i8, i8, "from_i8: Some, re == f64::from_i8, parts +0.0");
            chk!(from_i16, i16, "from_i16: Some, re == f64::from_i16, parts +0.0");
            chk!(from_i32, i32, "from_i32: Some, re == f64::from_i32, parts +0.0");
            chk!(from_i64, i64, "from_i64: Some, re == f64::from_i64, parts +0.0");
            chk!(from_isize, isize, "from_isize: Some, re == f64::from_isize, parts +0.0");
            chk!(from_u8, u8, "from_u8: Some, re == f64::from_u8, parts +0.0");
            chk!(from_u16, u16, "from_u16: Some, re == f64::from_u16, parts +0.0");
            chk!(from_u32, u32, "from_u32: Some, re == f64::from_u32, parts +0.0");
            chk!(from_u64, u64, "from_u64: Some, re == f64::from_u64, parts +0.0");
            chk!(from_usize, usize, "from_usize: Some, re == f64::from_usize, parts +0.0");
            chk!(from_i128, i128, "from_i128: Some, re == f64::from_i128, parts +0.0");
            chk!(from_u128, u128, "from_u128: Some, re == f64::from_u128, parts +0.0");
            chk!(from_f32, f32, "from_f32: Some, re == f64::from_f32, parts +0.0");
            chk!(from_f64, f64, "from_f64: Some, re == the argument, parts +0.0");
            // and independently of num_traits' f64 impl, for the common cases
            let i: i32 = kani::any();
            assert!(ok(<D as FromPrimitive>::from_i32(i), Some(i as f64)), "from_i32(i).re == i as f64");
            let u: u64 = kani::any();
            assert!(ok(<D as FromPrimitive>::from_u64(u), Some(u as f64)), "from_u64(u).re == u as f64");
            let x: f64 = kani::any();
            assert!(ok(<D as FromPrimitive>::from_f64(x), Some(x)), "from_f64(x).re == x");
        }
    };
}
from_prim_harness!(c06_from_primitive_dual64, Dual64);
from_prim_harness!(c06_from_primitive_hyperdual64, HyperDual64);
