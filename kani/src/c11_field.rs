//! C11: nalgebra field contract (Kani part): RealField constants, selection functions,
//! single-lane SimdValue.
use crate::c06_pred::Parts;
use crate::util::*;
use nalgebra::{ComplexField, RealField, SimdValue};
use num_dual::*;
use num_traits::Signed;

// ---------------------------------------------------------------- constants
// One harness per type for the 14 constants that are right on the unchanged tree and one
// separate harness per type for `frac_pi_2` (known defect: returns FRAC_PI_4), so that an
// expected failure cannot mask a regression of another constant.  Every assertion has its
// own message naming the constant.
macro_rules! konst {
    ($ty:ty, $f:ident, $std:expr, $bits:ident, $m1:literal, $m2:literal) => {{
        let c: $ty = <$ty as RealField>::$f();
        assert!($bits(c.re) == $bits($std), $m1);
        assert!(c.parts_zero_or_absent(), $m2);
    }};
}

/// derivative parts of a constant: scalar types must hold +0.0 exactly, vector types `none()`
pub trait ConstParts {
    fn parts_zero_or_absent(&self) -> bool;
}
macro_rules! const_parts_scalar {
    ($t:ty, $bits:ident, [$($f:ident),*]) => {
        impl ConstParts for $t {
            fn parts_zero_or_absent(&self) -> bool { true $(&& $bits(self.$f) == 0)* }
        }
    };
}
const_parts_scalar!(Dual64, b64, [eps]);
const_parts_scalar!(Dual2_64, b64, [v1, v2]);
const_parts_scalar!(Dual32, b32, [eps]);
const_parts_scalar!(Dual2_32, b32, [v1, v2]);
impl<const N: usize> ConstParts for DualSVec64<N> {
    fn parts_zero_or_absent(&self) -> bool {
        is_absent(&self.eps)
    }
}
impl<const N: usize> ConstParts for Dual2SVec64<N> {
    fn parts_zero_or_absent(&self) -> bool {
        is_absent(&self.v1) && is_absent(&self.v2)
    }
}
impl<const N: usize> ConstParts for DualSVec32<N> {
    fn parts_zero_or_absent(&self) -> bool {
        is_absent32(&self.eps)
    }
}
impl<const N: usize> ConstParts for Dual2SVec32<N> {
    fn parts_zero_or_absent(&self) -> bool {
        is_absent32(&self.v1) && is_absent32(&self.v2)
    }
}

macro_rules! const_harness {
    ($name:ident, $name_pi2:ident, $ty:ty, $fl:ident, $bits:ident) => {
        #[kani::proof]
        fn $name() {
            konst!($ty, pi, std::$fl::consts::PI, $bits, "pi().re is bit-equal to std consts::PI", "pi() has zero/absent derivative parts");
            konst!($ty, two_pi, std::$fl::consts::TAU, $bits, "two_pi().re is bit-equal to std consts::TAU", "two_pi() has zero/absent derivative parts");
            konst!($ty, frac_pi_3, std::$fl::consts::FRAC_PI_3, $bits, "frac_pi_3().re is bit-equal to std consts::FRAC_PI_3", "frac_pi_3() has zero/absent derivative parts");
            konst!($ty, frac_pi_4, std::$fl::consts::FRAC_PI_4, $bits, "frac_pi_4().re is bit-equal to std consts::FRAC_PI_4", "frac_pi_4() has zero/absent derivative parts");
            konst!($ty, frac_pi_6, std::$fl::consts::FRAC_PI_6, $bits, "frac_pi_6().re is bit-equal to std consts::FRAC_PI_6", "frac_pi_6() has zero/absent derivative parts");
            konst!($ty, frac_pi_8, std::$fl::consts::FRAC_PI_8, $bits, "frac_pi_8().re is bit-equal to std consts::FRAC_PI_8", "frac_pi_8() has zero/absent derivative parts");
            konst!($ty, frac_1_pi, std::$fl::consts::FRAC_1_PI, $bits, "frac_1_pi().re is bit-equal to std consts::FRAC_1_PI", "frac_1_pi() has zero/absent derivative parts");
            konst!($ty, frac_2_pi, std::$fl::consts::FRAC_2_PI, $bits, "frac_2_pi().re is bit-equal to std consts::FRAC_2_PI", "frac_2_pi() has zero/absent derivative parts");
            konst!($ty, frac_2_sqrt_pi, std::$fl::consts::FRAC_2_SQRT_PI, $bits, "frac_2_sqrt_pi().re is bit-equal to std consts::FRAC_2_SQRT_PI", "frac_2_sqrt_pi() has zero/absent derivative parts");
            konst!($ty, e, std::$fl::consts::E, $bits, "e().re is bit-equal to std consts::E", "e() has zero/absent derivative parts");
            konst!($ty, log2_e, std::$fl::consts::LOG2_E, $bits, "log2_e().re is bit-equal to std consts::LOG2_E", "log2_e() has zero/absent derivative parts");
            konst!($ty, log10_e, std::$fl::consts::LOG10_E, $bits, "log10_e().re is bit-equal to std consts::LOG10_E", "log10_e() has zero/absent derivative parts");
            konst!($ty, ln_2, std::$fl::consts::LN_2, $bits, "ln_2().re is bit-equal to std consts::LN_2", "ln_2() has zero/absent derivative parts");
            konst!($ty, ln_10, std::$fl::consts::LN_10, $bits, "ln_10().re is bit-equal to std consts::LN_10", "ln_10() has zero/absent derivative parts");
        }
        #[kani::proof]
        fn $name_pi2() {
            konst!($ty, frac_pi_2, std::$fl::consts::FRAC_PI_2, $bits, "frac_pi_2().re is bit-equal to std consts::FRAC_PI_2", "frac_pi_2() has zero/absent derivative parts");
        }
    };
}
const_harness!(c11_const_dual64, c11_const_frac_pi_2_dual64, Dual64, f64, b64);
const_harness!(c11_const_dual2_64, c11_const_frac_pi_2_dual2_64, Dual2_64, f64, b64);
const_harness!(c11_const_dualsvec64_2, c11_const_frac_pi_2_dualsvec64_2, DualSVec64<2>, f64, b64);
const_harness!(c11_const_dual2svec64_2, c11_const_frac_pi_2_dual2svec64_2, Dual2SVec64<2>, f64, b64);
const_harness!(c11_const_dual32, c11_const_frac_pi_2_dual32, Dual32, f32, b32);
const_harness!(c11_const_dual2_32, c11_const_frac_pi_2_dual2_32, Dual2_32, f32, b32);
const_harness!(c11_const_dualsvec32_2, c11_const_frac_pi_2_dualsvec32_2, DualSVec32<2>, f32, b32);
const_harness!(c11_const_dual2svec32_2, c11_const_frac_pi_2_dual2svec32_2, Dual2SVec32<2>, f32, b32);

// ---------------------------------------------------------------- selection semantics
// copysign / ComplexField::abs / min / max / clamp return one of {x, -x} resp. one of the
// operands, in all parts, bit for bit; the choice depends on real parts only.
// Domain: real parts not NaN (stated).  Signed zeros are included.
macro_rules! select_harness {
    ($name:ident, $mk:expr) => {
        #[kani::proof]
        fn $name() {
            let a = $mk;
            let b = $mk;
            let c = $mk;
            kani::assume(!a.re.is_nan() && !b.re.is_nan() && !c.re.is_nan());
            let a_neg = b64(a.re) >> 63 == 1; // sign bit, so that -0.0 counts as negative
            let b_neg = b64(b.re) >> 63 == 1;

            // ComplexField::abs: x if the sign bit of x.re is clear, otherwise -x
            let ab = ComplexField::abs(a.clone());
            if a_neg {
                assert!(ab.is_neg_of(&a), "ComplexField::abs(x) == -x (all parts) when x.re has its sign bit set");
            } else {
                assert!(ab.same(&a), "ComplexField::abs(x) == x (all parts) when x.re has its sign bit clear");
            }
            assert!(b64(ab.re) >> 63 == 0, "ComplexField::abs(x).re has its sign bit clear");

            // copysign(x, s): +-x, such that the sign bit of the real part is that of s.re
            let cs = RealField::copysign(a.clone(), b.clone());
            if a_neg == b_neg {
                assert!(cs.same(&a), "copysign(x,s) == x (all parts) when sign bits of x.re and s.re agree");
            } else {
                assert!(cs.is_neg_of(&a), "copysign(x,s) == -x (all parts) when sign bits of x.re and s.re differ");
            }
            assert!((b64(cs.re) >> 63 == 1) == b_neg, "copysign(x,s).re carries the sign bit of s.re");

            // min / max / clamp
            let mx = RealField::max(a.clone(), b.clone());
            let mn = RealField::min(a.clone(), b.clone());
            if b.re > a.re {
                assert!(mx.same(&b), "max(a,b) is b (all parts) when b.re > a.re");
            } else {
                assert!(mx.same(&a), "max(a,b) is a (all parts) when !(b.re > a.re)");
            }
            if b.re < a.re {
                assert!(mn.same(&b), "min(a,b) is b (all parts) when b.re < a.re");
            } else {
                assert!(mn.same(&a), "min(a,b) is a (all parts) when !(b.re < a.re)");
            }
            let cl = RealField::clamp(a.clone(), b.clone(), c.clone());
            if a.re < b.re {
                assert!(cl.same(&b), "clamp(x,lo,hi) is lo (all parts) when x.re < lo.re");
            } else if a.re > c.re {
                assert!(cl.same(&c), "clamp(x,lo,hi) is hi (all parts) when x.re > hi.re");
            } else {
                assert!(cl.same(&a), "clamp(x,lo,hi) is x (all parts) otherwise");
            }
        }
    };
}
select_harness!(c11_select_dual64, any_dual64());
select_harness!(c11_select_dual2_64, any_dual2_64());
select_harness!(c11_select_dualsvec64_2, any_dualsvec64::<2>());
select_harness!(c11_select_dual2svec64_2, any_dual2svec64::<2>());
select_harness!(c11_select_dualsvec64_1, any_dualsvec64::<1>());
select_harness!(c11_select_dual2svec64_1, any_dual2svec64::<1>());

// ---------------------------------------------------------------- SimdValue, LANES == 1
pub trait ValueEq {
    /// equal as values: parts bit-equal, an absent derivative counts as all-(+0.0)
    fn value_eq(&self, o: &Self) -> bool;
    /// same, but +0.0 and -0.0 derivative entries are identified
    fn value_eq_mod_zero_sign(&self, o: &Self) -> bool;
}
macro_rules! value_eq_scalar {
    ($t:ty) => {
        impl ValueEq for $t {
            fn value_eq(&self, o: &Self) -> bool {
                self.same(o)
            }
            fn value_eq_mod_zero_sign(&self, o: &Self) -> bool {
                self.same(o)
            }
        }
    };
}
value_eq_scalar!(Dual64);
value_eq_scalar!(Dual2_64);
fn deriv_value_eq<const R: usize, const C: usize>(
    a: &Derivative<f64, f64, nalgebra::Const<R>, nalgebra::Const<C>>,
    b: &Derivative<f64, f64, nalgebra::Const<R>, nalgebra::Const<C>>,
) -> bool {
    let (ea, eb) = (entries(a), entries(b));
    let mut ok = true;
    let mut j = 0;
    while j < C {
        let mut i = 0;
        while i < R {
            ok &= b64(ea[j][i]) == b64(eb[j][i]);
            i += 1;
        }
        j += 1;
    }
    ok
}
fn deriv_value_eq0<const R: usize, const C: usize>(
    a: &Derivative<f64, f64, nalgebra::Const<R>, nalgebra::Const<C>>,
    b: &Derivative<f64, f64, nalgebra::Const<R>, nalgebra::Const<C>>,
) -> bool {
    let (ea, eb) = (entries(a), entries(b));
    let mut ok = true;
    let mut j = 0;
    while j < C {
        let mut i = 0;
        while i < R {
            ok &= b64(ea[j][i]) == b64(eb[j][i]) || (ea[j][i] == 0.0 && eb[j][i] == 0.0);
            i += 1;
        }
        j += 1;
    }
    ok
}
impl<const N: usize> ValueEq for DualSVec64<N> {
    fn value_eq(&self, o: &Self) -> bool {
        b64(self.re) == b64(o.re) && deriv_value_eq(&self.eps, &o.eps)
    }
    fn value_eq_mod_zero_sign(&self, o: &Self) -> bool {
        b64(self.re) == b64(o.re) && deriv_value_eq0(&self.eps, &o.eps)
    }
}
impl<const N: usize> ValueEq for Dual2SVec64<N> {
    fn value_eq(&self, o: &Self) -> bool {
        b64(self.re) == b64(o.re) && deriv_value_eq(&self.v1, &o.v1) && deriv_value_eq(&self.v2, &o.v2)
    }
    fn value_eq_mod_zero_sign(&self, o: &Self) -> bool {
        b64(self.re) == b64(o.re) && deriv_value_eq0(&self.v1, &o.v1) && deriv_value_eq0(&self.v2, &o.v2)
    }
}

macro_rules! simd_harness {
    ($name:ident, $ty:ty, $mk:expr) => {
        #[kani::proof]
        fn $name() {
            assert!(<$ty as SimdValue>::LANES == 1, "LANES == 1");
            let x: $ty = $mk;
            let y: $ty = $mk;
            // splat / extract: exact, including absent parts
            let s = <$ty as SimdValue>::splat(x.clone());
            assert!(s.same(&x), "splat(x) == x (all parts bit-for-bit, absent stays absent)");
            let e = s.extract(0);
            assert!(e.same(&x), "splat(x).extract(0) == x (all parts bit-for-bit, absent stays absent)");
            // extract_unchecked drops an all-zero derivative to `none()` (is_zero test), which
            // turns -0.0 entries into +0.0: compared modulo the sign of zero entries.
            let eu = unsafe { x.extract_unchecked(0) };
            assert!(eu.value_eq_mod_zero_sign(&x), "extract_unchecked(0) == x as a value (modulo sign of zero entries)");
            // replace: lane 0 becomes y.  An absent part of y written over a present part of x
            // is stored as explicit zeros (documented "auto-upgrade"), hence value equality
            // (absent == all +0.0) is what holds; every entry is compared bit-for-bit.
            let mut r = x.clone();
            r.replace(0, y.clone());
            assert!(r.extract(0).value_eq(&y), "replace(0,y); extract(0) == y (all parts bit-for-bit; absent == zeros)");
            let mut ru = x.clone();
            unsafe { ru.replace_unchecked(0, y.clone()) };
            assert!(ru.extract(0).value_eq(&y), "replace_unchecked(0,y); extract(0) == y");
            // select
            assert!(x.clone().select(true, y.clone()).same(&x), "select(true, a, b) == a (all parts, absent stays absent)");
            assert!(x.clone().select(false, y.clone()).same(&y), "select(false, a, b) == b (all parts, absent stays absent)");
        }
    };
}
simd_harness!(c11_simd_dual64, Dual64, any_dual64());
simd_harness!(c11_simd_dual2_64, Dual2_64, any_dual2_64());
simd_harness!(c11_simd_dualsvec64_2, DualSVec64<2>, any_dualsvec64::<2>());
simd_harness!(c11_simd_dual2svec64_2, Dual2SVec64<2>, any_dual2svec64::<2>());
simd_harness!(c11_simd_dualsvec64_1, DualSVec64<1>, any_dualsvec64::<1>());
simd_harness!(c11_simd_dual2svec64_1, Dual2SVec64<1>, any_dual2svec64::<1>());
