//! C13: simba `SubsetOf` / `SupersetOf` conversions between the f32 and f64 flavours.
//!
//! NaN: an `as` cast of a NaN yields *a* NaN whose payload is platform-defined, so a NaN part
//! is required to map to a NaN part; every non-NaN bit pattern (incl. +-0, inf, subnormals)
//! is compared bit-for-bit.
//!
//! Checks enabled: Kani defaults (pointer validity, bounds, dangling/dead objects, Rust
//! overflow/bounds panics, unwinding assertions).  Harnesses that *narrow* f64 -> f32 are run
//! with `--no-overflow-checks`, because CBMC's float-overflow instrumentation flags the (well
//! defined) cast 1e300_f64 as f32 == inf; all pointer/bounds checks stay on for them.
use crate::util::*;
use nalgebra::{Const, Dyn, OMatrix, U1};
use num_dual::*;
use simba::scalar::{SubsetOf, SupersetOf};

// ---------------------------------------------------------------- float plumbing
pub trait Fl: Copy + 'static {
    fn bits(self) -> u64;
    fn nan(self) -> bool;
    fn zero() -> Self;
}
impl Fl for f32 {
    fn bits(self) -> u64 {
        self.to_bits() as u64
    }
    fn nan(self) -> bool {
        self.is_nan()
    }
    fn zero() -> Self {
        0.0
    }
}
impl Fl for f64 {
    fn bits(self) -> u64 {
        self.to_bits()
    }
    fn nan(self) -> bool {
        self.is_nan()
    }
    fn zero() -> Self {
        0.0
    }
}
pub trait CastTo<B: Fl>: Fl {
    fn cast(self) -> B;
}
impl CastTo<f64> for f32 {
    fn cast(self) -> f64 {
        self as f64
    }
}
impl CastTo<f32> for f64 {
    fn cast(self) -> f32 {
        self as f32
    }
}
impl CastTo<f64> for f64 {
    fn cast(self) -> f64 {
        self
    }
}
impl CastTo<f32> for f32 {
    fn cast(self) -> f32 {
        self
    }
}
fn same_or_nan<A: Fl>(a: A, b: A) -> bool {
    a.bits() == b.bits() || (a.nan() && b.nan())
}

// ---------------------------------------------------------------- flat view of a dual number
pub const MAXP: usize = 7; // re + v1 (<=2) + v2 (<=4)
#[derive(Clone, Copy)]
pub struct View<F: Fl> {
    pub vals: [F; MAXP],
    /// presence of the (up to) two derivative groups; `true` for scalar types
    pub present: [bool; 2],
}
pub trait HasView<F: Fl> {
    fn view(&self) -> View<F>;
}
macro_rules! view_impls {
    ($F:ty, $entries:ident, $is_absent:ident) => {
        impl HasView<$F> for Dual<$F, $F> {
            fn view(&self) -> View<$F> {
                let mut v = View { vals: [0.0; MAXP], present: [true, true] };
                v.vals[0] = self.re;
                v.vals[1] = self.eps;
                v
            }
        }
        impl HasView<$F> for Dual2<$F, $F> {
            fn view(&self) -> View<$F> {
                let mut v = View { vals: [0.0; MAXP], present: [true, true] };
                v.vals[0] = self.re;
                v.vals[1] = self.v1;
                v.vals[2] = self.v2;
                v
            }
        }
        impl<const N: usize> HasView<$F> for DualVec<$F, $F, Const<N>> {
            fn view(&self) -> View<$F> {
                let mut v = View { vals: [0.0; MAXP], present: [!$is_absent(&self.eps), true] };
                v.vals[0] = self.re;
                let e = $entries(&self.eps);
                let mut i = 0;
                while i < N {
                    v.vals[1 + i] = e[0][i];
                    i += 1;
                }
                v
            }
        }
        impl<const N: usize> HasView<$F> for Dual2Vec<$F, $F, Const<N>> {
            fn view(&self) -> View<$F> {
                let mut v = View {
                    vals: [0.0; MAXP],
                    present: [!$is_absent(&self.v1), !$is_absent(&self.v2)],
                };
                v.vals[0] = self.re;
                let e1 = $entries(&self.v1);
                let e2 = $entries(&self.v2);
                let mut j = 0;
                while j < N {
                    v.vals[1 + j] = e1[j][0];
                    let mut i = 0;
                    while i < N {
                        v.vals[1 + N + j * N + i] = e2[j][i];
                        i += 1;
                    }
                    j += 1;
                }
                v
            }
        }
    };
}
view_impls!(f64, entries, is_absent);
view_impls!(f32, entries32, is_absent32);

/// every part of `b` is the `as`-cast of the corresponding part of `a`, presence preserved
fn is_cast_of<A: CastTo<B>, B: Fl>(a: &View<A>, b: &View<B>) -> bool {
    let mut ok = a.present[0] == b.present[0] && a.present[1] == b.present[1];
    let mut k = 0;
    while k < MAXP {
        ok &= same_or_nan(a.vals[k].cast(), b.vals[k]);
        k += 1;
    }
    ok
}
fn view_same<A: Fl>(a: &View<A>, b: &View<A>) -> bool {
    let mut ok = a.present[0] == b.present[0] && a.present[1] == b.present[1];
    let mut k = 0;
    while k < MAXP {
        ok &= same_or_nan(a.vals[k], b.vals[k]);
        k += 1;
    }
    ok
}

// ---------------------------------------------------------------- symbolic values, both widths
pub trait AnyVal: Sized {
    /// arbitrary value; derivative groups symbolically present/absent
    fn any_val() -> Self;
    /// arbitrary value with all derivative groups present
    fn any_present() -> Self;
}
macro_rules! any_impls {
    ($F:ty, $anyd:ident, $anym:ident) => {
        impl AnyVal for Dual<$F, $F> {
            fn any_val() -> Self {
                Dual::new(kani::any(), kani::any())
            }
            fn any_present() -> Self {
                Self::any_val()
            }
        }
        impl AnyVal for Dual2<$F, $F> {
            fn any_val() -> Self {
                Dual2::new(kani::any(), kani::any(), kani::any())
            }
            fn any_present() -> Self {
                Self::any_val()
            }
        }
        impl<const N: usize> AnyVal for DualVec<$F, $F, Const<N>> {
            fn any_val() -> Self {
                DualVec::new(kani::any(), $anyd::<N, 1>())
            }
            fn any_present() -> Self {
                DualVec::new(kani::any(), Derivative::some($anym::<N, 1>()))
            }
        }
        impl<const N: usize> AnyVal for Dual2Vec<$F, $F, Const<N>> {
            fn any_val() -> Self {
                Dual2Vec::new(kani::any(), $anyd::<1, N>(), $anyd::<N, N>())
            }
            fn any_present() -> Self {
                Dual2Vec::new(
                    kani::any(),
                    Derivative::some($anym::<1, N>()),
                    Derivative::some($anym::<N, N>()),
                )
            }
        }
    };
}
any_impls!(f64, any_deriv, any_smatrix);
any_impls!(f32, any_deriv32, any_smatrix32);

// ---------------------------------------------------------------- generic checks
/// (i) to_superset maps every part by `as`; absent stays absent.
fn check_to_superset<S, P, A, B>()
where
    S: AnyVal + HasView<A> + SubsetOf<P>,
    P: HasView<B>,
    A: CastTo<B>,
    B: Fl,
{
    let x = S::any_val();
    let y: P = x.to_superset();
    assert!(is_cast_of(&x.view(), &y.view()), "to_superset: every part is the `as` cast, absent stays absent");
}

/// (i) exact round trip through a (wider or equal) superset.
fn check_round_trip<S, P, A, B>()
where
    S: AnyVal + HasView<A> + SubsetOf<P>,
    P: HasView<B> + SupersetOf<S>,
    A: CastTo<B>,
    B: Fl,
{
    let x = S::any_val();
    let y: P = x.to_superset();
    let back = S::from_superset_unchecked(&y);
    assert!(view_same(&x.view(), &back.view()), "from_superset_unchecked(to_superset(x)) == x in every part");
    let back2: S = y.to_subset_unchecked();
    assert!(view_same(&x.view(), &back2.view()), "to_superset(x).to_subset_unchecked() == x in every part");
}

/// (i) checked round trip: `to_subset` must succeed and give x back.  Split from the above
/// because on the unchanged tree it fails for vector types with an absent derivative.
fn check_round_trip_checked<S, P, A, B>(all_present: bool)
where
    S: AnyVal + HasView<A> + SubsetOf<P>,
    P: HasView<B> + SupersetOf<S>,
    A: CastTo<B>,
    B: Fl,
{
    let x = if all_present { S::any_present() } else { S::any_val() };
    let y: P = x.to_superset();
    let back: Option<S> = y.to_subset();
    match back {
        Some(b) => assert!(view_same(&x.view(), &b.view()), "to_superset(x).to_subset() == Some(x) in every part"),
        None => assert!(false, "to_superset(x).to_subset() is Some (x is in the subset by construction)"),
    }
}

/// (ii) from_superset(y).is_some() == is_in_subset(y); when Some, every part is the `as` cast.
fn check_from_superset<S, P, A, B>(all_present: bool)
where
    S: HasView<A> + SubsetOf<P>,
    P: AnyVal + HasView<B>,
    B: CastTo<A>,
    A: Fl,
{
    let y = if all_present { P::any_present() } else { P::any_val() };
    let claimed = S::is_in_subset(&y);
    let got = S::from_superset(&y);
    assert!(got.is_some() == claimed, "from_superset(y).is_some() == is_in_subset(y)");
    if let Some(z) = got {
        assert!(is_cast_of(&y.view(), &z.view()), "from_superset(y) == Some(z): every part of z is the `as` cast of y's");
    }
    let u = S::from_superset_unchecked(&y);
    assert!(is_cast_of(&y.view(), &u.view()), "from_superset_unchecked(y): every part is the `as` cast, absent stays absent");
}

/// (iii) the plain floats are a subset: constant embedding and real-part projection.
fn check_float_subset<P, B>()
where
    P: AnyVal + HasView<B> + SupersetOf<f64> + SupersetOf<f32>,
    B: Fl,
    f64: CastTo<B>,
    f32: CastTo<B>,
    B: CastTo<f64> + CastTo<f32>,
{
    let f: f64 = kani::any();
    let g: f32 = kani::any();
    let pf: P = <P as SupersetOf<f64>>::from_subset(&f);
    let pg: P = <P as SupersetOf<f32>>::from_subset(&g);
    let (vf, vg) = (pf.view(), pg.view());
    assert!(same_or_nan(vf.vals[0], CastTo::<B>::cast(f)), "from_subset(f64).re == f as F");
    assert!(same_or_nan(vg.vals[0], CastTo::<B>::cast(g)), "from_subset(f32).re == f as F");
    // derivative parts: scalar types store +0.0; vector types store `none()`
    let mut k = 1;
    while k < MAXP {
        assert!(vf.vals[k].bits() == 0 && vg.vals[k].bits() == 0, "from_subset(float) has zero derivative parts");
        k += 1;
    }
    let y = P::any_val();
    let re = y.view().vals[0];
    let d: f64 = <P as SupersetOf<f64>>::to_subset_unchecked(&y);
    let s: f32 = <P as SupersetOf<f32>>::to_subset_unchecked(&y);
    assert!(same_or_nan(d, CastTo::<f64>::cast(re)), "to_subset_unchecked::<f64>() == re as f64");
    assert!(same_or_nan(s, CastTo::<f32>::cast(re)), "to_subset_unchecked::<f32>() == re as f32");
    assert!(<P as SupersetOf<f64>>::is_in_subset(&y), "every dual number projects onto f64 (is_in_subset)");
    assert!(<P as SupersetOf<f32>>::is_in_subset(&y), "every dual number projects onto f32 (is_in_subset)");
    // to_subset agrees with to_subset_unchecked
    match <P as SupersetOf<f64>>::to_subset(&y) {
        Some(v) => assert!(same_or_nan(v, d), "to_subset::<f64>() == Some(re as f64)"),
        None => assert!(false, "to_subset::<f64>() is Some"),
    }
}

/// for vector types `from_subset(float)` must give *absent* derivative parts
fn check_float_subset_absent<P, B>()
where
    P: HasView<B> + SupersetOf<f64> + SupersetOf<f32>,
    B: Fl,
{
    let f: f64 = kani::any();
    let g: f32 = kani::any();
    let pf: P = <P as SupersetOf<f64>>::from_subset(&f);
    let pg: P = <P as SupersetOf<f32>>::from_subset(&g);
    assert!(pf.view().present == [false, false] || pf.view().present == [false, true], "from_subset(f64): derivative parts absent");
    assert!(pg.view().present == [false, false] || pg.view().present == [false, true], "from_subset(f32): derivative parts absent");
}

// ---------------------------------------------------------------- harness table
macro_rules! c13_family {
    ($widen:ident, $narrow:ident, $ident:ident, $floats:ident, $T32:ty, $T64:ty) => {
        /// f32 -> f64: exact embedding and exact way back (all default checks on)
        #[kani::proof]
        fn $widen() {
            check_to_superset::<$T32, $T64, f32, f64>();
            check_round_trip::<$T32, $T64, f32, f64>();
        }
        /// f64 -> f32 (`to_superset` in the f64->f32 direction is the narrowing cast)
        #[kani::proof]
        fn $narrow() {
            check_to_superset::<$T64, $T32, f64, f32>();
        }
        /// same-width conversions are the identity
        #[kani::proof]
        fn $ident() {
            check_to_superset::<$T64, $T64, f64, f64>();
            check_round_trip::<$T64, $T64, f64, f64>();
            check_to_superset::<$T32, $T32, f32, f32>();
            check_round_trip::<$T32, $T32, f32, f32>();
        }
        /// (iii) SupersetOf<f64> / SupersetOf<f32>
        #[kani::proof]
        fn $floats() {
            check_float_subset::<$T64, f64>();
            check_float_subset::<$T32, f32>();
        }
    };
}
c13_family!(c13_widen_dual, c13_narrow_dual, c13_identity_dual, c13_floats_dual, Dual32, Dual64);
c13_family!(c13_widen_dual2, c13_narrow_dual2, c13_identity_dual2, c13_floats_dual2, Dual2_32, Dual2_64);
c13_family!(c13_widen_dualsvec_1, c13_narrow_dualsvec_1, c13_identity_dualsvec_1, c13_floats_dualsvec_1, DualSVec32<1>, DualSVec64<1>);
c13_family!(c13_widen_dualsvec_2, c13_narrow_dualsvec_2, c13_identity_dualsvec_2, c13_floats_dualsvec_2, DualSVec32<2>, DualSVec64<2>);
c13_family!(c13_widen_dual2svec_1, c13_narrow_dual2svec_1, c13_identity_dual2svec_1, c13_floats_dual2svec_1, Dual2SVec32<1>, Dual2SVec64<1>);
c13_family!(c13_widen_dual2svec_2, c13_narrow_dual2svec_2, c13_identity_dual2svec_2, c13_floats_dual2svec_2, Dual2SVec32<2>, Dual2SVec64<2>);

#[kani::proof]
fn c13_floats_absent_dualsvec_2() {
    check_float_subset_absent::<DualSVec64<2>, f64>();
    check_float_subset_absent::<DualSVec32<2>, f32>();
}
#[kani::proof]
fn c13_floats_absent_dual2svec_2() {
    let f: f64 = kani::any();
    let p: Dual2SVec64<2> = <Dual2SVec64<2> as SupersetOf<f64>>::from_subset(&f);
    assert!(is_absent(&p.v1) && is_absent(&p.v2), "Dual2SVec64::from_subset(f64): v1, v2 absent");
    let g: f32 = kani::any();
    let q: Dual2SVec32<2> = <Dual2SVec32<2> as SupersetOf<f32>>::from_subset(&g);
    assert!(is_absent32(&q.v1) && is_absent32(&q.v2), "Dual2SVec32::from_subset(f32): v1, v2 absent");
}

// (ii) from_superset vs is_in_subset.  `$present` harnesses fix every derivative group to be
// present (expected to pass); `$any` harnesses let groups be absent (expected to FAIL on the
// unchanged tree for vector types: `is_in_subset` says true, `from_superset` returns None).
macro_rules! c13_from_superset {
    ($down:ident, $same:ident, $up:ident, $T32:ty, $T64:ty, $present:expr) => {
        /// f64 -> f32 (narrowing; --no-overflow-checks)
        #[kani::proof]
        fn $down() {
            check_from_superset::<$T32, $T64, f32, f64>($present);
        }
        /// f64 -> f64 and f32 -> f32
        #[kani::proof]
        fn $same() {
            check_from_superset::<$T64, $T64, f64, f64>($present);
            check_from_superset::<$T32, $T32, f32, f32>($present);
            check_round_trip_checked::<$T64, $T64, f64, f64>($present);
        }
        /// f32 -> f64 (the f64 flavour seen as "subset" of the f32 flavour) + checked round trip
        #[kani::proof]
        fn $up() {
            check_from_superset::<$T64, $T32, f64, f32>($present);
            check_round_trip_checked::<$T32, $T64, f32, f64>($present);
        }
    };
}
c13_from_superset!(c13_from_superset_down_dual, c13_from_superset_same_dual, c13_from_superset_up_dual, Dual32, Dual64, false);
c13_from_superset!(c13_from_superset_down_dual2, c13_from_superset_same_dual2, c13_from_superset_up_dual2, Dual2_32, Dual2_64, false);
c13_from_superset!(c13_from_superset_down_dualsvec_2_present, c13_from_superset_same_dualsvec_2_present, c13_from_superset_up_dualsvec_2_present, DualSVec32<2>, DualSVec64<2>, true);
c13_from_superset!(c13_from_superset_down_dualsvec_2_absent, c13_from_superset_same_dualsvec_2_absent, c13_from_superset_up_dualsvec_2_absent, DualSVec32<2>, DualSVec64<2>, false);
c13_from_superset!(c13_from_superset_down_dual2svec_2_present, c13_from_superset_same_dual2svec_2_present, c13_from_superset_up_dual2svec_2_present, Dual2SVec32<2>, Dual2SVec64<2>, true);
c13_from_superset!(c13_from_superset_down_dual2svec_2_absent, c13_from_superset_same_dual2svec_2_absent, c13_from_superset_up_dual2svec_2_absent, Dual2SVec32<2>, Dual2SVec64<2>, false);
c13_from_superset!(c13_from_superset_down_dualsvec_1_absent, c13_from_superset_same_dualsvec_1_absent, c13_from_superset_up_dualsvec_1_absent, DualSVec32<1>, DualSVec64<1>, false);
c13_from_superset!(c13_from_superset_down_dual2svec_1_absent, c13_from_superset_same_dual2svec_1_absent, c13_from_superset_up_dual2svec_1_absent, Dual2SVec32<1>, Dual2SVec64<1>, false);

// ---------------------------------------------------------------- Dyn (heap) flavours, BOUNDED
// DualDVec32/64 with a derivative of fixed length n = 2 (and symbolically absent).  These
// exercise the unsafe `map_borrowed` / `try_map_borrowed` loops with run-time dimensions.
fn any_dualdvec64(n: usize, present: bool) -> DualDVec64 {
    let e: [f64; 2] = kani::any();
    let eps = if present { Derivative::some(nalgebra::DVector::from_fn(n, |i, _| e[i])) } else { Derivative::none() };
    DualDVec64::new(kani::any(), eps)
}
fn any_dualdvec32(n: usize, present: bool) -> DualDVec32 {
    let e: [f32; 2] = kani::any();
    let eps = if present { Derivative::some(nalgebra::DVector::from_fn(n, |i, _| e[i])) } else { Derivative::none() };
    DualDVec32::new(kani::any(), eps)
}
fn dyn_absent64(d: &Derivative<f64, f64, Dyn, U1>) -> bool {
    *d == Derivative::none()
}
fn dyn_absent32(d: &Derivative<f32, f32, Dyn, U1>) -> bool {
    *d == Derivative::none()
}

/// f32 -> f64 -> f32 on DualDVec, n = 2; presence of eps fixed per harness (a symbolic
/// presence flag made this one harness take 18 min / 26 GB)
fn check_widen_dyn(present: bool) {
    let x = any_dualdvec32(2, present);
    let y: DualDVec64 = x.to_superset();
    assert!(same_or_nan(y.re, x.re as f64), "Dyn to_superset: re is the `as` cast");
    assert!(dyn_absent64(&y.eps) == !present, "Dyn to_superset: absent stays absent, present stays present");
    if present {
        let (ex, ey) = (x.eps.clone().unwrap_generic(Dyn(2), U1), y.eps.clone().unwrap_generic(Dyn(2), U1));
        assert!(ey.len() == 2, "Dyn to_superset: length preserved");
        assert!(same_or_nan(ey[0], ex[0] as f64) && same_or_nan(ey[1], ex[1] as f64), "Dyn to_superset: eps entries are the `as` cast");
    }
    let back = <DualDVec32 as SubsetOf<DualDVec64>>::from_superset_unchecked(&y);
    assert!(same_or_nan(back.re, x.re), "Dyn round trip: re");
    assert!(dyn_absent32(&back.eps) == !present, "Dyn round trip: absent stays absent");
    if present {
        let (ex, eb) = (x.eps.clone().unwrap_generic(Dyn(2), U1), back.eps.clone().unwrap_generic(Dyn(2), U1));
        assert!(eb.len() == 2 && same_or_nan(eb[0], ex[0]) && same_or_nan(eb[1], ex[1]), "Dyn round trip: eps entries");
    }
}

#[kani::proof]
#[kani::unwind(4)]
fn c13_widen_dualdvec_n2_present() {
    check_widen_dyn(true);
}
#[kani::proof]
#[kani::unwind(4)]
fn c13_widen_dualdvec_absent() {
    check_widen_dyn(false);
}

/// (ii) on DualDVec, f64 -> f32, n = 2: `$present` fixed per harness
fn check_from_superset_dyn(present: bool) {
    let y = any_dualdvec64(2, present);
    let claimed = <DualDVec32 as SubsetOf<DualDVec64>>::is_in_subset(&y);
    let got = <DualDVec32 as SubsetOf<DualDVec64>>::from_superset(&y);
    assert!(got.is_some() == claimed, "Dyn: from_superset(y).is_some() == is_in_subset(y)");
    if let Some(z) = got {
        assert!(same_or_nan(z.re, y.re as f32), "Dyn from_superset: re is the `as` cast");
        assert!(dyn_absent32(&z.eps) == !present, "Dyn from_superset: absent stays absent");
        if present {
            let (ey, ez) = (y.eps.clone().unwrap_generic(Dyn(2), U1), z.eps.clone().unwrap_generic(Dyn(2), U1));
            assert!(ez.len() == 2 && same_or_nan(ez[0], ey[0] as f32) && same_or_nan(ez[1], ey[1] as f32), "Dyn from_superset: eps entries are the `as` cast");
        }
    }
}
#[kani::proof]
#[kani::unwind(4)]
fn c13_from_superset_down_dualdvec_n2_present() {
    check_from_superset_dyn(true);
}
#[kani::proof]
#[kani::unwind(4)]
fn c13_from_superset_down_dualdvec_absent() {
    check_from_superset_dyn(false);
}

// ---------------------------------------------------------------- dimension 0
// A PRESENT derivative with zero entries (`Derivative::some` of an empty vector/matrix) and an
// absent one.  Every element-wise predicate over the entries is vacuous here, so this is the
// only place where `all` and `any` in `Derivative::is_in_subset` differ.
// Asserted: is_in_subset(y) is true, from_superset(y) is Some, the two agree, the real part is
// the `as` cast, presence (present-but-empty vs absent) is kept by from_superset,
// to_superset and the round trip.  Real part: all bit patterns (NaN -> NaN).
fn check_dim0<S, P, A, B>(present: bool)
where
    S: AnyVal + HasView<A> + SubsetOf<P>,
    P: AnyVal + HasView<B> + SupersetOf<S>,
    A: CastTo<B>,
    B: CastTo<A>,
{
    // superset -> subset
    let y = if present { P::any_present() } else { P::any_val() };
    let claimed = S::is_in_subset(&y);
    let got = S::from_superset(&y);
    assert!(claimed, "dim 0: is_in_subset(y) is true (float conversions never fail; no entries to object)");
    assert!(got.is_some(), "dim 0: from_superset(y) is Some");
    assert!(got.is_some() == claimed, "dim 0: from_superset(y).is_some() == is_in_subset(y)");
    if let Some(z) = got {
        assert!(is_cast_of(&y.view(), &z.view()), "dim 0: from_superset keeps presence (present-but-empty stays present, absent stays absent); re is the `as` cast");
    }
    // subset -> superset -> subset
    let x = if present { S::any_present() } else { S::any_val() };
    let up: P = x.to_superset();
    assert!(is_cast_of(&x.view(), &up.view()), "dim 0: to_superset keeps presence; re is the `as` cast");
    assert!(S::is_in_subset(&up), "dim 0: to_superset(x) is in the subset");
    match up.to_subset() {
        Some(b) => assert!(view_same(&x.view(), &b.view()) || !same_width_or_widening::<A, B>(), "dim 0: to_superset(x).to_subset() == Some(x), presence kept"),
        None => assert!(false, "dim 0: to_superset(x).to_subset() is Some"),
    }
}
/// the exact round trip only holds when the superset float is at least as wide
fn same_width_or_widening<A: Fl, B: Fl>() -> bool {
    std::mem::size_of::<A>() <= std::mem::size_of::<B>()
}
macro_rules! c13_dim0 {
    ($present:ident, $absent:ident, $down_present:ident, $T32:ty, $T64:ty) => {
        /// f64->f64, f32->f32, and f32 as subset of f64 (default checks)
        #[kani::proof]
        #[kani::unwind(9)] // view helpers loop over MAXP = 7 slots
        fn $present() {
            check_dim0::<$T64, $T64, f64, f64>(true);
            check_dim0::<$T32, $T32, f32, f32>(true);
            check_dim0::<$T32, $T64, f32, f64>(true);
        }
        #[kani::proof]
        #[kani::unwind(9)] // view helpers loop over MAXP = 7 slots
        fn $absent() {
            check_dim0::<$T64, $T64, f64, f64>(false);
            check_dim0::<$T32, $T64, f32, f64>(false);
        }
        /// f64 as subset of f32 (narrowing of the real part: --no-overflow-checks)
        #[kani::proof]
        #[kani::unwind(9)] // view helpers loop over MAXP = 7 slots
        fn $down_present() {
            check_dim0::<$T64, $T32, f64, f32>(true);
        }
    };
}
c13_dim0!(c13_dim0_dualsvec_present, c13_dim0_dualsvec_absent, c13_dim0_down_dualsvec_present, DualSVec32<0>, DualSVec64<0>);
c13_dim0!(c13_dim0_dual2svec_present, c13_dim0_dual2svec_absent, c13_dim0_down_dual2svec_present, Dual2SVec32<0>, Dual2SVec64<0>);

/// Dyn with run-time length 0: eps = Some(empty DVector) resp. absent
fn check_dim0_dyn(present: bool) {
    let y = any_dualdvec64(0, present);
    assert!(dyn_absent64(&y.eps) == !present, "dim 0 (Dyn): constructed as requested");
    let claimed = <DualDVec64 as SubsetOf<DualDVec64>>::is_in_subset(&y);
    let got = <DualDVec64 as SubsetOf<DualDVec64>>::from_superset(&y);
    assert!(claimed, "dim 0 (Dyn): is_in_subset(y) is true");
    assert!(got.is_some() == claimed, "dim 0 (Dyn): from_superset(y).is_some() == is_in_subset(y)");
    if let Some(z) = got {
        assert!(same_or_nan(z.re, y.re), "dim 0 (Dyn): from_superset keeps re");
        assert!(dyn_absent64(&z.eps) == !present, "dim 0 (Dyn): from_superset keeps presence");
        assert!(z.eps.clone().unwrap_generic(Dyn(0), U1).len() == 0, "dim 0 (Dyn): length stays 0");
    }
    let x = any_dualdvec32(0, present);
    let up: DualDVec64 = x.to_superset();
    assert!(same_or_nan(up.re, x.re as f64) && dyn_absent64(&up.eps) == !present, "dim 0 (Dyn): to_superset keeps presence, re is the `as` cast");
    assert!(<DualDVec32 as SubsetOf<DualDVec64>>::is_in_subset(&up), "dim 0 (Dyn): to_superset(x) is in the subset");
    match <DualDVec32 as SubsetOf<DualDVec64>>::from_superset(&up) {
        Some(b) => assert!(same_or_nan(b.re, x.re) && dyn_absent32(&b.eps) == !present, "dim 0 (Dyn): round trip keeps re and presence"),
        None => assert!(false, "dim 0 (Dyn): round trip succeeds"),
    }
}
#[kani::proof]
#[kani::unwind(3)]
fn c13_dim0_dualdvec_present() {
    check_dim0_dyn(true);
}
#[kani::proof]
#[kani::unwind(3)]
fn c13_dim0_dualdvec_absent() {
    check_dim0_dyn(false);
}
