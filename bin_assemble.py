import sys, subprocess, json
sys.path.insert(0,'lib')
import prelude, speclib, lemmas
u=sys.argv[1]
subprocess.check_call(['/verif/.cache/extract-target/debug/extract','.cache/expanded.rs','contracts/contracts.json','gen',u])
meta=json.load(open(f'gen/{u}.meta.json'))
body = prelude.generate() + speclib.generate()
exec_ = open(f'gen/{u}.exec.rs').read()
mirror = open(f'gen/{u}.mirror.rs').read()
ls = lemmas.gen_type_lemmas(meta)
nl = "pub mod nl {\nuse super::*;\n" + "".join(l.text() for l in ls) + "}\n"
can = "pub mod canary {\nuse super::*;\n" + "".join(l.text(canary=True) for l in ls if l.requires) + "}\n"
src = "#![allow(unused_imports, non_snake_case, unused_variables, unused_mut, redundant_semicolons, unused_parens, dead_code)]\nuse vstd::prelude::*;\nverus! {\n" + body + "\n// ===== mirrors =====\n" + mirror + "\n// ===== exec =====\n" + exec_ + "\n// ===== lemmas =====\n" + nl + can + "\n} // verus!\nfn main() {}\n"
open(f'gen/unit_{u}.rs','w').write(src)
print(len(ls),'lemmas')
