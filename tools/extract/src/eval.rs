//! Symbolic evaluation of a function body into per-part mirror expressions.
//! The output is *not trusted*: the verbatim body is re-proved equal to it by Verus on every run.
use crate::db::{Db, Func, PartKind, Rhs};
use std::collections::HashMap;
use syn::{BinOp, Expr, FnArg, Pat, Stmt, Type, UnOp};

#[derive(Clone, Debug)]
pub enum Val {
    Real(String),
    Int(String),
    Bool(String),
    Unit,
    Struct(String, Vec<(String, Val)>),
    Tuple(Vec<Val>),
    Ref(Box<Val>),
    /// Option<v>: (is_some condition, payload)
    Opt(String, Box<Val>),
    /// Derivative (dense view): symbolic matrix expression evaluated entry-wise
    Deriv(M),
}

#[derive(Clone, Copy, Debug, PartialEq, Eq, Hash)]
pub enum Ix {
    Z,
    I,
    J,
}

#[derive(Clone, Debug)]
pub struct M {
    pub id: usize,
    pub e: std::rc::Rc<MatE>,
}

#[derive(Clone, Debug)]
pub enum MatE {
    Zero,
    Leaf(String),
    Scale(M, String),
    DivS(M, String),
    Add(M, M),
    Sub(M, M),
    Neg(M),
    MatMul(M, M),
    TrMul(M, M),
    /// part `part` (e.g. "v1") of the struct returned by an extracted function
    Call { mname: String, part: String, natural: Vec<Ix>, args: Vec<(Kind, Val)> },
    /// if-merge of two matrices
    Ite(String, M, M),
}

static MID: std::sync::atomic::AtomicUsize = std::sync::atomic::AtomicUsize::new(1);
pub fn mk(e: MatE) -> M {
    M { id: MID.fetch_add(1, std::sync::atomic::Ordering::Relaxed), e: std::rc::Rc::new(e) }
}

/// leaves of a vector-type struct in canonical parameter order: (leaf name suffix, part, index vars)
pub fn vec_leaves(db: &Db, ty: &str) -> Vec<(String, String, Vec<Ix>)> {
    let ti = &db.types[ty];
    let nvec = ti.parts.iter().filter(|(_, k)| matches!(k, PartKind::Deriv(r, c) if r == "U1" || c == "U1")).count();
    let nmat = ti.parts.iter().filter(|(_, k)| matches!(k, PartKind::Deriv(r, c) if r != "U1" && c != "U1")).count();
    let mut out = vec![];
    let mut seen_vec = 0;
    for (p, k) in &ti.parts {
        match k {
            PartKind::Sc => out.push((p.clone(), p.clone(), vec![])),
            PartKind::Inner(i) => {
                for (leaf, ipath, idx) in vec_leaves(db, i) {
                    out.push((format!("{p}_{leaf}"), format!("{p}.{ipath}"), idx));
                }
            }
            PartKind::Deriv(r, c) if r == "U1" || c == "U1" => {
                seen_vec += 1;
                if nvec == 1 && nmat >= 1 {
                    out.push((format!("{p}_i"), p.clone(), vec![Ix::I]));
                    out.push((format!("{p}_j"), p.clone(), vec![Ix::J]));
                } else if nvec == 2 && seen_vec == 2 {
                    out.push((format!("{p}_j"), p.clone(), vec![Ix::J]));
                } else {
                    out.push((format!("{p}_i"), p.clone(), vec![Ix::I]));
                }
            }
            PartKind::Deriv(..) => out.push((format!("{p}_ij"), p.clone(), vec![Ix::I, Ix::J])),
        }
    }
    out
}

/// output parts of a vector-type struct: (out name, part, index vars)
pub fn vec_outs(db: &Db, ty: &str) -> Vec<(String, String, Vec<Ix>)> {
    let mut seen = std::collections::HashSet::new();
    vec_leaves(db, ty).into_iter().filter(|(_, p, _)| seen.insert(p.clone())).collect()
}

/// field access along a dotted path
pub fn get_path(v: &Val, path: &str) -> Option<Val> {
    let mut cur = strip_ref(v.clone());
    for seg in path.split('.') {
        match cur {
            Val::Struct(_, fs) => {
                cur = strip_ref(fs.into_iter().find(|(n, _)| n == seg)?.1);
            }
            _ => return None,
        }
    }
    Some(cur)
}

/// build a (possibly nested) struct value of type `ty` from a map dotted-path -> value
pub fn assemble(db: &Db, ty: &str, prefix: &str, map: &HashMap<String, Val>) -> R<Val> {
    let ti = db.types.get(ty).ok_or("unknown type")?;
    let mut fs = vec![];
    for (p, k) in &ti.parts {
        let path = if prefix.is_empty() { p.clone() } else { format!("{prefix}.{p}") };
        match k {
            PartKind::Inner(i) => fs.push((p.clone(), assemble(db, i, &path, map)?)),
            _ => fs.push((p.clone(), map.get(&path).cloned().ok_or(format!("missing part {path}"))?)),
        }
    }
    Ok(Val::Struct(ty.to_string(), fs))
}

pub fn is_vec_type(db: &Db, ty: &str) -> bool {
    db.types.get(ty).map(|t| t.parts.iter().any(|(_, k)| matches!(k, PartKind::Deriv(..)))).unwrap_or(false)
}

fn part_orient(db: &Db, ty: &str, part: &str) -> (bool, bool) {
    // (row_is_unit, col_is_unit)
    for (p, k) in &db.types[ty].parts {
        if p == part {
            if let PartKind::Deriv(r, c) = k {
                return (r == "U1", c == "U1");
            }
        }
    }
    (false, false)
}

#[derive(Clone, Debug, PartialEq)]
pub enum Kind {
    Sc,
    Fl,
    Int(String),
    Bool,
    Struct(String),
    Tuple(Vec<Kind>),
    Unit,
    Opt(Box<Kind>),
}

#[derive(Clone, Debug)]
pub struct ParamSpec {
    pub name: String,
    pub kind: Kind,
    pub is_ref: bool,
    pub is_mut: bool,
}

#[derive(Clone, Debug)]
pub struct Mirror {
    pub params: Vec<(String, &'static str)>,
    pub lets: Vec<(String, String, &'static str)>,
    /// (part suffix, expression, sort)
    pub outs: Vec<(String, String, &'static str)>,
    pub ret: Kind,
    pub mutates_self: bool,
}

pub type R<T> = Result<T, String>;

pub fn classify_type(db: &Db, t: &Type, cur: &str) -> R<(Kind, bool, bool)> {
    match t {
        Type::Reference(r) => {
            let (k, _, _) = classify_type(db, &r.elem, cur)?;
            Ok((k, true, r.mutability.is_some()))
        }
        Type::Paren(p) => classify_type(db, &p.elem, cur),
        Type::Tuple(t) => {
            if t.elems.is_empty() {
                return Ok((Kind::Unit, false, false));
            }
            let mut v = vec![];
            for e in &t.elems {
                v.push(classify_type(db, e, cur)?.0);
            }
            Ok((Kind::Tuple(v), false, false))
        }
        Type::Path(p) => {
            let segs: Vec<String> = p.path.segments.iter().map(|s| s.ident.to_string()).collect();
            let last = segs.last().unwrap().as_str();
            if segs.len() == 2 && segs[0] == "Self" && (last == "Output" || last == "RealField") {
                return Ok((Kind::Struct(cur.to_string()), false, false));
            }
            if let Some((outer, inner)) = db.nested.get(cur) {
                if last == "T" {
                    return Ok((Kind::Struct(inner.clone()), false, false));
                }
                if last == outer {
                    return Ok((Kind::Struct(cur.to_string()), false, false));
                }
            }
            match last {
                "f64" => Ok((Kind::Sc, false, false)),
                "Self" if cur == "F64" => Ok((Kind::Sc, false, false)),
                "T" => Ok((Kind::Sc, false, false)),
                "F" => Ok((Kind::Fl, false, false)),
                "Self" => Ok((Kind::Struct(cur.to_string()), false, false)),
                "i32" | "usize" | "u32" | "i64" | "u64" | "isize" | "i8" | "i16" | "u8" | "u16" | "i128" | "u128" => {
                    Ok((Kind::Int(last.to_string()), false, false))
                }
                "bool" => Ok((Kind::Bool, false, false)),
                "Option" => {
                    let seg = p.path.segments.last().unwrap();
                    if let syn::PathArguments::AngleBracketed(a) = &seg.arguments {
                        if let Some(syn::GenericArgument::Type(it)) = a.args.first() {
                            let (k, _, _) = classify_type(db, it, cur)?;
                            return Ok((Kind::Opt(Box::new(k)), false, false));
                        }
                    }
                    Err("Option without arg".into())
                }
                n if db.types.contains_key(n) => Ok((Kind::Struct(n.to_string()), false, false)),
                n => Err(format!("unsupported type {n}")),
            }
        }
        _ => Err("unsupported type form".into()),
    }
}

pub fn params_of(db: &Db, f: &Func) -> R<Vec<ParamSpec>> {
    let mut v = vec![];
    for a in &f.item.sig.inputs {
        match a {
            FnArg::Receiver(r) => {
                let is_ref = r.reference.is_some() || f.self_ref;
                let is_mut = r.reference.is_some() && r.mutability.is_some();
                let kind = if f.ty == "F64" { Kind::Sc } else { Kind::Struct(f.ty.clone()) };
                v.push(ParamSpec { name: "self".into(), kind, is_ref, is_mut });
            }
            FnArg::Typed(pt) => {
                let name = match &*pt.pat {
                    Pat::Ident(i) => i.ident.to_string(),
                    _ => return Err("non-ident param".into()),
                };
                let (kind, is_ref, is_mut) = classify_type(db, &pt.ty, &f.ty)?;
                v.push(ParamSpec { name, kind, is_ref, is_mut });
            }
        }
    }
    Ok(v)
}

pub fn ret_kind(db: &Db, f: &Func) -> R<Kind> {
    match &f.item.sig.output {
        syn::ReturnType::Default => Ok(Kind::Unit),
        syn::ReturnType::Type(_, t) => Ok(classify_type(db, t, &f.ty)?.0),
    }
}

/// flat (name, sort) list of a value of kind `k` rooted at `root`
pub fn flat_kind(db: &Db, root: &str, k: &Kind, out: &mut Vec<(String, &'static str)>) -> R<()> {
    match k {
        Kind::Sc | Kind::Fl => out.push((root.to_string(), "real")),
        Kind::Int(_) => out.push((root.to_string(), "int")),
        Kind::Bool => out.push((root.to_string(), "bool")),
        Kind::Unit => {}
        Kind::Struct(t) => {
            db.types.get(t).ok_or("unknown type")?;
            if t == "Derivative" {
                return Err("bare Derivative parameter".into());
            }
            for (leaf, _, _) in vec_leaves(db, t) {
                out.push((format!("{root}_{leaf}"), "real"));
            }
        }
        Kind::Tuple(v) => {
            for (i, k) in v.iter().enumerate() {
                flat_kind(db, &format!("{root}_{i}"), k, out)?;
            }
        }
        Kind::Opt(_) => return Err("Option in flat position".into()),
    }
    Ok(())
}

fn val_of_kind(db: &Db, root: &str, k: &Kind) -> R<Val> {
    Ok(match k {
        Kind::Sc | Kind::Fl => Val::Real(root.to_string()),
        Kind::Int(_) => Val::Int(root.to_string()),
        Kind::Bool => Val::Bool(root.to_string()),
        Kind::Unit => Val::Unit,
        Kind::Struct(t) => {
            let ti = db.types.get(t).ok_or("unknown type")?;
            let mut fs = vec![];
            if t == "Derivative" {
                return Err("bare Derivative parameter".into());
            }
            for (p, pk) in &ti.parts {
                match pk {
                    PartKind::Sc => fs.push((p.clone(), Val::Real(format!("{root}_{p}")))),
                    PartKind::Inner(i) => fs.push((p.clone(), val_of_kind(db, &format!("{root}_{p}"), &Kind::Struct(i.clone()))?)),
                    PartKind::Deriv(..) => fs.push((p.clone(), Val::Deriv(mk(MatE::Leaf(format!("{root}_{p}")))))),
                }
            }
            Val::Struct(t.clone(), fs)
        }
        Kind::Tuple(v) => {
            let mut vs = vec![];
            for (i, k) in v.iter().enumerate() {
                vs.push(val_of_kind(db, &format!("{root}_{i}"), k)?);
            }
            Val::Tuple(vs)
        }
        Kind::Opt(_) => return Err("Option param".into()),
    })
}

/// names of the uninterpreted / interpreted real functions used for methods on scalars
fn scalar_method(name: &str, x: &str, args: &[Val]) -> Option<Val> {
    let r = |s: String| Some(Val::Real(s));
    let a0 = || -> Option<String> {
        match strip_ref(args.first()?.clone()) {
            Val::Real(s) | Val::Int(s) => Some(s),
            _ => None,
        }
    };
    match name {
        "clone" | "re" => r(x.to_string()),
        // operator-trait methods written as method calls (`a.neg()`, `a.add(b)`, ...)
        "neg" if args.is_empty() => r(format!("(-({x}))")),
        "add" if args.len() == 1 => r(format!("({x} + {})", a0()?)),
        "sub" if args.len() == 1 => r(format!("({x} - {})", a0()?)),
        "mul" if args.len() == 1 => r(format!("({x} * {})", a0()?)),
        "recip" | "sqrt" | "cbrt" | "exp" | "exp2" | "ln" | "log2" | "log10" | "sin" | "cos" | "tan" | "asin" | "acos" | "atan"
        | "sinh" | "cosh" | "tanh" | "asinh" | "acosh" | "atanh" | "abs" | "signum" => r(format!("{name}_r({x})")),
        "exp_m1" => r(format!("expm1_r({x})")),
        "ln_1p" => r(format!("ln1p_r({x})")),
        "sph_j0" | "sph_j1" | "sph_j2" => r(format!("{name}_r({x})")),
        "sin_cos" => Some(Val::Tuple(vec![Val::Real(format!("sin_r({x})")), Val::Real(format!("cos_r({x})"))])),
        "log" => r(format!("log_r({x}, {})", a0()?)),
        "atan2" => r(format!("atan2_r({x}, {})", a0()?)),
        "powf" => r(format!("powf_r({x}, {})", a0()?)),
        "powi" => r(format!("powi_r({x}, {})", a0()?)),
        "is_finite" => Some(Val::Bool(format!("is_finite_r({x})"))),
        "is_zero" => Some(Val::Bool(format!("({x} == 0real)"))),
        "is_one" => Some(Val::Bool(format!("({x} == 1real)"))),
        "is_positive" => Some(Val::Bool(format!("is_positive_r({x})"))),
        "is_negative" => Some(Val::Bool(format!("is_negative_r({x})"))),
        "eq" => Some(Val::Bool(format!("({x} == {})", a0()?))),
        "ne" => Some(Val::Bool(format!("({x} != {})", a0()?))),
        "lt" => Some(Val::Bool(format!("({x} < {})", a0()?))),
        "le" => Some(Val::Bool(format!("({x} <= {})", a0()?))),
        "gt" => Some(Val::Bool(format!("({x} > {})", a0()?))),
        "ge" => Some(Val::Bool(format!("({x} >= {})", a0()?))),
        _ => None,
    }
}

pub fn strip_ref(v: Val) -> Val {
    match v {
        Val::Ref(b) => strip_ref(*b),
        v => v,
    }
}

fn is_ref(v: &Val) -> bool {
    matches!(v, Val::Ref(_))
}

pub fn float_lit_to_real(e: &Expr) -> Option<String> {
    match e {
        Expr::Lit(l) => match &l.lit {
            syn::Lit::Float(f) => {
                let s = f.base10_digits().to_string();
                Some(dec_to_real(&s))
            }
            _ => None,
        },
        Expr::Unary(u) if matches!(u.op, UnOp::Neg(_)) => float_lit_to_real(&u.expr).map(|s| format!("(-{s})")),
        Expr::Paren(p) => float_lit_to_real(&p.expr),
        Expr::Group(p) => float_lit_to_real(&p.expr),
        Expr::Binary(b) => {
            let l = float_lit_to_real(&b.left)?;
            let r = float_lit_to_real(&b.right)?;
            let op = match b.op {
                BinOp::Add(_) => "+",
                BinOp::Sub(_) => "-",
                BinOp::Mul(_) => "*",
                BinOp::Div(_) => "/",
                _ => return None,
            };
            Some(format!("({l} {op} {r})"))
        }
        _ => None,
    }
}

fn dec_to_real(s: &str) -> String {
    // "6.0" -> "6real", "0.5" -> "(5real / 10real)"
    let s = s.trim_end_matches("f64").trim_end_matches("f32").trim_end_matches('_');
    if let Some((a, b)) = s.split_once('.') {
        let b = b.trim_end_matches('0');
        if b.is_empty() {
            return format!("{}real", a.parse::<u128>().unwrap_or(0));
        }
        let num: u128 = format!("{a}{b}").parse().unwrap_or(0);
        let den: u128 = 10u128.pow(b.len() as u32);
        let g = gcd(num, den);
        format!("({}real / {}real)", num / g, den / g)
    } else {
        format!("{}real", s)
    }
}

fn gcd(a: u128, b: u128) -> u128 {
    if b == 0 { a } else { gcd(b, a % b) }
}

pub struct Ev<'a> {
    pub db: &'a Db,
    pub cur: String,
    pub lets: Vec<(String, String, &'static str)>,
    scopes: Vec<HashMap<String, Val>>,
    n: usize,
    depth_branch: usize,
    /// mirrors available (by mname) with their param lists / out parts
    pub sigs: &'a HashMap<String, Mirror>,
    memo: HashMap<(usize, Ix, Ix), String>,
    /// evaluating a ComplexField / RealField method: field-trait methods take precedence for by-value receivers
    pub field_ctx: bool,
}

#[derive(Clone, Copy, Debug, PartialEq)]
pub enum Mode {
    Full,
    Only(Ix, Ix),
    ReOnly,
}

impl<'a> Ev<'a> {
    fn fresh(&mut self, e: String, sort: &'static str) -> String {
        // atoms are not re-bound
        if is_atom(&e) {
            return e;
        }
        self.n += 1;
        let name = format!("t_{}", self.n);
        self.lets.push((name.clone(), e, sort));
        name
    }
    fn real(&mut self, e: String) -> Val {
        Val::Real(self.fresh(e, "real"))
    }
    fn lookup(&self, name: &str) -> Option<Val> {
        for s in self.scopes.iter().rev() {
            if let Some(v) = s.get(name) {
                return Some(v.clone());
            }
        }
        None
    }
    fn assign_var(&mut self, name: &str, v: Val) -> R<()> {
        for s in self.scopes.iter_mut().rev() {
            if s.contains_key(name) {
                s.insert(name.to_string(), v);
                return Ok(());
            }
        }
        Err(format!("assignment to unknown variable {name}"))
    }

    fn resolve_ty(&self, segs: &[String]) -> Option<String> {
        // Self, Self::Output, Dual, <Dual<T,F>>
        let first = segs.first()?;
        if first == "Self" {
            return Some(self.cur.clone());
        }
        if let Some((outer, inner)) = self.db.nested.get(&self.cur) {
            if first == outer {
                return Some(self.cur.clone());
            }
            if first == "T" {
                return Some(inner.clone());
            }
        }
        if self.db.types.contains_key(first) {
            return Some(first.clone());
        }
        None
    }

    /// entry (a,b) of a symbolic matrix
    pub fn mat_at(&mut self, m: &M, a: Ix, b: Ix) -> R<String> {
        if let Some(v) = self.memo.get(&(m.id, a, b)) {
            return Ok(v.clone());
        }
        let e = match &*m.e {
            MatE::Zero => "0real".to_string(),
            MatE::Leaf(base) => match (a, b) {
                (Ix::Z, Ix::I) | (Ix::I, Ix::Z) => format!("{base}_i"),
                (Ix::Z, Ix::J) | (Ix::J, Ix::Z) => format!("{base}_j"),
                (Ix::I, Ix::J) => format!("{base}_ij"),
                _ => return Err(format!("entry ({:?},{:?}) of {base} is outside the flat leaf set", a, b)),
            },
            MatE::Scale(x, f) => {
                let v = self.mat_at(x, a, b)?;
                format!("({v} * {f})")
            }
            MatE::DivS(x, f) => {
                let v = self.mat_at(x, a, b)?;
                format!("rdiv({v}, {f})")
            }
            MatE::Add(x, y) => {
                let (u, v) = (self.mat_at(x, a, b)?, self.mat_at(y, a, b)?);
                format!("({u} + {v})")
            }
            MatE::Sub(x, y) => {
                let (u, v) = (self.mat_at(x, a, b)?, self.mat_at(y, a, b)?);
                format!("({u} - {v})")
            }
            MatE::Neg(x) => {
                let v = self.mat_at(x, a, b)?;
                format!("(-{v})")
            }
            // inner dimension is U1 for every product the crate forms (checked by the Mx contracts in the exec unit)
            MatE::MatMul(x, y) => {
                let (u, v) = (self.mat_at(x, a, Ix::Z)?, self.mat_at(y, Ix::Z, b)?);
                format!("({u} * {v})")
            }
            MatE::TrMul(x, y) => {
                let (u, v) = (self.mat_at(x, Ix::Z, a)?, self.mat_at(y, Ix::Z, b)?);
                format!("({u} * {v})")
            }
            MatE::Ite(c, x, y) => {
                let (u, v) = (self.mat_at(x, a, b)?, self.mat_at(y, a, b)?);
                format!("(if {c} {{ {u} }} else {{ {v} }})")
            }
            MatE::Call { mname, part, natural, args } => {
                let mode = match natural.len() {
                    1 => {
                        let x = if a == Ix::Z { b } else if b == Ix::Z { a } else { return Err("vector part indexed as matrix".into()) };
                        if x == Ix::Z {
                            return Err("vector part at (0,0)".into());
                        }
                        Mode::Only(natural[0], x)
                    }
                    2 => {
                        if (a, b) != (Ix::I, Ix::J) {
                            return Err("matrix part of a call result at a transposed / diagonal entry".into());
                        }
                        Mode::Full
                    }
                    _ => return Err("bad natural index".into()),
                };
                let mut flat = vec![];
                for (k, v) in args.clone() {
                    self.flatten_val(&strip_ref(v), &k, mode, &mut flat)?;
                }
                format!("{mname}_{part}({})", flat.join(", "))
            }
        };
        let v = self.fresh(e, "real");
        self.memo.insert((m.id, a, b), v.clone());
        Ok(v)
    }

    pub fn flatten_val(&mut self, v: &Val, k: &Kind, mode: Mode, out: &mut Vec<String>) -> R<()> {
        match (v, k) {
            (Val::Real(s), Kind::Sc | Kind::Fl) => out.push(s.clone()),
            (Val::Int(s), Kind::Int(_)) => out.push(s.clone()),
            (Val::Bool(s), Kind::Bool) => out.push(s.clone()),
            (Val::Unit, Kind::Unit) => {}
            (Val::Struct(t, fs), Kind::Struct(t2)) if t == t2 => {
                let ty = t.clone();
                let whole = Val::Struct(t.clone(), fs.clone());
                for (_, part, idx) in vec_leaves(self.db, &ty) {
                    let fv = get_path(&whole, &part).ok_or("missing part")?;
                    match strip_ref(fv) {
                        Val::Real(s) => out.push(s),
                        Val::Deriv(m) => {
                            let (row_unit, _col_unit) = part_orient(self.db, &ty, &part);
                            let at1 = |x: Ix| if row_unit { (Ix::Z, x) } else { (x, Ix::Z) };
                            let e = match (mode, idx.as_slice()) {
                                (Mode::Full, [x]) => {
                                    let (a, b) = at1(*x);
                                    self.mat_at(&m, a, b)?
                                }
                                (Mode::Full, [_, _]) => self.mat_at(&m, Ix::I, Ix::J)?,
                                (Mode::Only(nat, x), [y]) if *y == nat => {
                                    let (a, b) = at1(x);
                                    self.mat_at(&m, a, b)?
                                }
                                _ => "0real".to_string(),
                            };
                            out.push(e);
                        }
                        _ => return Err("non-scalar struct part".into()),
                    }
                }
            }
            (Val::Tuple(vs), Kind::Tuple(ks)) if vs.len() == ks.len() => {
                for (v, k) in vs.iter().zip(ks) {
                    self.flatten_val(&strip_ref(v.clone()), k, mode, out)?;
                }
            }
            (Val::Ref(b), k) => self.flatten_val(b, k, mode, out)?,
            _ => return Err(format!("argument shape mismatch: {:?} vs {:?}", v, k)),
        }
        Ok(())
    }

    /// result value of a call of `f` (mirror base name `mname`) with the given (kind, value) arguments
    fn build_result(&mut self, mname: &str, ret: &Kind, prefix: &str, args: &[(Kind, Val)]) -> R<Val> {
        let key = |s: &str| if prefix.is_empty() { s.to_string() } else if s.is_empty() { prefix.to_string() } else { format!("{prefix}_{s}") };
        let scalar_call = |ev: &mut Ev, part: String, sort: &'static str| -> R<String> {
            let mut flat = vec![];
            for (k, v) in args {
                ev.flatten_val(&strip_ref(v.clone()), k, Mode::ReOnly, &mut flat)?;
            }
            Ok(ev.fresh(format!("{mname}_{part}({})", flat.join(", ")), sort))
        };
        Ok(match ret {
            Kind::Sc | Kind::Fl => Val::Real(scalar_call(self, key(if prefix.is_empty() { "ret" } else { "" }), "real")?),
            Kind::Int(_) => Val::Int(scalar_call(self, key(if prefix.is_empty() { "ret" } else { "" }), "int")?),
            Kind::Bool => Val::Bool(scalar_call(self, key(if prefix.is_empty() { "ret" } else { "" }), "bool")?),
            Kind::Unit => Val::Unit,
            Kind::Struct(t) => {
                let mut map: HashMap<String, Val> = HashMap::new();
                for (out, part, idx) in vec_outs(self.db, t) {
                    if idx.is_empty() {
                        map.insert(part.clone(), Val::Real(scalar_call(self, key(&out), "real")?));
                    } else {
                        map.insert(part.clone(), Val::Deriv(mk(MatE::Call { mname: mname.to_string(), part: key(&out), natural: idx.clone(), args: args.to_vec() })));
                    }
                }
                assemble(self.db, t, "", &map)?
            }
            Kind::Tuple(ks) => {
                let mut vs = vec![];
                for (i, k) in ks.iter().enumerate() {
                    vs.push(self.build_result(mname, k, &key(&i.to_string()), args)?);
                }
                Val::Tuple(vs)
            }
            Kind::Opt(_) => return Err("Option return of callee".into()),
        })
    }

    /// call the mirror of an extracted function on argument values
    pub fn call_func(&mut self, f: &Func, args: Vec<Val>) -> R<Val> {
        let m = self.sigs.get(&f.mname).ok_or_else(|| format!("callee {} has no mirror", f.id()))?.clone();
        let ps = params_of(self.db, f)?;
        if ps.len() != args.len() {
            return Err(format!("arity mismatch calling {}", f.id()));
        }
        if m.mutates_self {
            return Err("call of a &mut self function in expression position".into());
        }
        let kargs: Vec<(Kind, Val)> = ps.iter().map(|p| p.kind.clone()).zip(args.into_iter().map(strip_ref)).collect();
        // shape check of the arguments
        let mut tmp = vec![];
        for (k, v) in &kargs {
            self.flatten_val(v, k, Mode::ReOnly, &mut tmp).map_err(|e| format!("{e} (calling {})", f.id()))?;
        }
        self.build_result(&f.mname, &m.ret, "", &kargs)
    }

    fn call_mut_self(&mut self, f: &Func, self_val: Val, rest: Vec<Val>) -> R<Val> {
        // returns the new value of self
        self.sigs.get(&f.mname).ok_or_else(|| format!("callee {} has no mirror", f.id()))?;
        let ps = params_of(self.db, f)?;
        let mut args = vec![self_val];
        args.extend(rest);
        let kargs: Vec<(Kind, Val)> = ps.iter().map(|p| p.kind.clone()).zip(args.into_iter().map(strip_ref)).collect();
        self.build_result(&f.mname, &Kind::Struct(f.ty.clone()), "", &kargs)
    }

    pub fn eval_block(&mut self, b: &syn::Block) -> R<Val> {
        self.scopes.push(HashMap::new());
        let r = self.eval_stmts(&b.stmts);
        self.scopes.pop();
        r
    }

    /// `if c { …; return e; }` followed by the rest of the block  ==  `if c { …; e } else { rest }`
    fn early_return<'b>(s: &'b Stmt) -> Option<(&'b Expr, &'b [Stmt], &'b Expr)> {
        let e = match s {
            Stmt::Expr(e, _) => e,
            _ => return None,
        };
        if let Expr::If(i) = e {
            if i.else_branch.is_none() {
                if let Some(Stmt::Expr(Expr::Return(r), _)) = i.then_branch.stmts.last() {
                    if let Some(rv) = &r.expr {
                        let n = i.then_branch.stmts.len();
                        return Some((&i.cond, &i.then_branch.stmts[..n - 1], rv));
                    }
                }
            }
        }
        None
    }

    fn eval_stmts(&mut self, stmts: &[Stmt]) -> R<Val> {
        let mut last = Val::Unit;
        let n = stmts.len();
        for (i, s) in stmts.iter().enumerate() {
            if let Some((cond, pre, rv)) = Self::early_return(s) {
                let c = match strip_ref(self.eval(cond)?) {
                    Val::Bool(c) => c,
                    _ => return Err("non-bool condition".into()),
                };
                let c = self.fresh(c, "bool");
                self.depth_branch += 1;
                self.scopes.push(HashMap::new());
                self.eval_stmts(pre)?;
                let a = self.eval(rv)?;
                self.scopes.pop();
                self.scopes.push(HashMap::new());
                let b = self.eval_stmts(&stmts[i + 1..])?;
                self.scopes.pop();
                self.depth_branch -= 1;
                return self.merge(&c, a, b);
            }
            match s {
                Stmt::Local(l) => {
                    let init = l.init.as_ref().ok_or("let without init")?;
                    if init.diverge.is_some() {
                        return Err("let-else".into());
                    }
                    let v = self.eval(&init.expr)?;
                    self.bind_pat(&l.pat, v)?;
                    last = Val::Unit;
                }
                Stmt::Expr(e, semi) => {
                    if let Expr::Verbatim(_) = e {
                        continue;
                    }
                    if let (Expr::Return(r), true) = (e, i == n - 1) {
                        if let Some(rv) = &r.expr {
                            return self.eval(rv);
                        }
                    }
                    let v = self.eval(e)?;
                    if semi.is_none() && i == n - 1 {
                        last = v;
                    } else {
                        last = Val::Unit;
                    }
                }
                Stmt::Item(_) => return Err("item in body".into()),
                Stmt::Macro(m) => {
                    return Err(format!("macro {} in body", quote::ToTokens::to_token_stream(&m.mac.path)));
                }
            }
        }
        Ok(last)
    }

    fn bind_pat(&mut self, p: &Pat, v: Val) -> R<()> {
        match p {
            Pat::Ident(i) => {
                if i.subpat.is_some() {
                    return Err("subpattern".into());
                }
                self.scopes.last_mut().unwrap().insert(i.ident.to_string(), v);
                Ok(())
            }
            Pat::Type(t) => self.bind_pat(&t.pat, v),
            Pat::Tuple(t) => match strip_ref(v) {
                Val::Tuple(vs) if vs.len() == t.elems.len() => {
                    for (p, v) in t.elems.iter().zip(vs) {
                        self.bind_pat(p, v)?;
                    }
                    Ok(())
                }
                _ => Err("tuple pattern on non-tuple".into()),
            },
            Pat::Wild(_) => Ok(()),
            Pat::Reference(r) => self.bind_pat(&r.pat, strip_ref(v)),
            // `let Self { re, eps, .. } = self;` / `let Dual { re: a, .. } = x;` -- field values by name; through a
            // reference the bindings are references to the fields (default binding modes)
            Pat::Struct(ps) => {
                let by_ref = is_ref(&v);
                match strip_ref(v) {
                    Val::Struct(_, fs) => {
                        for fp in &ps.fields {
                            let name = match &fp.member {
                                syn::Member::Named(id) => id.to_string(),
                                syn::Member::Unnamed(_) => return Err("tuple-struct pattern".into()),
                            };
                            let fv = fs.iter().find(|(k, _)| *k == name).map(|(_, v)| v.clone());
                            match fv {
                                Some(fv) => {
                                    let fv = if by_ref { Val::Ref(Box::new(strip_ref(fv))) } else { fv };
                                    self.bind_pat(&fp.pat, fv)?;
                                }
                                // a field the model does not carry (PhantomData): only `_` / an unused name may bind it
                                None => {}
                            }
                        }
                        Ok(())
                    }
                    _ => Err("struct pattern on non-struct".into()),
                }
            }
            _ => Err("unsupported pattern".into()),
        }
    }

    fn path_segs(p: &syn::ExprPath) -> Vec<String> {
        let mut v = vec![];
        if let Some(q) = &p.qself {
            if let Some((n, _)) = crate::db::type_last_ident(&q.ty) {
                v.push(n);
            }
            // skip the trait-part segments covered by qself.position
            for s in p.path.segments.iter().skip(q.position) {
                v.push(s.ident.to_string());
            }
            return v;
        }
        for s in &p.path.segments {
            v.push(s.ident.to_string());
        }
        v
    }

    pub fn eval(&mut self, e: &Expr) -> R<Val> {
        match e {
            Expr::Paren(p) => self.eval(&p.expr),
            Expr::Group(p) => self.eval(&p.expr),
            Expr::Block(b) => self.eval_block(&b.block),
            Expr::Lit(l) => match &l.lit {
                syn::Lit::Int(i) => Ok(Val::Int(i.base10_digits().to_string())),
                syn::Lit::Float(_) => Ok(Val::Real(float_lit_to_real(e).unwrap())),
                syn::Lit::Bool(b) => Ok(Val::Bool(b.value.to_string())),
                _ => Err("unsupported literal".into()),
            },
            Expr::Path(p) => {
                let segs = Self::path_segs(p);
                if segs.len() == 1 {
                    return self.lookup(&segs[0]).ok_or(format!("unknown variable {}", segs[0]));
                }
                if segs == ["f64", "EPSILON"] {
                    return Ok(Val::Real("eps_r()".into()));
                }
                Err(format!("path value {}", segs.join("::")))
            }
            Expr::Reference(r) => {
                let v = self.eval(&r.expr)?;
                Ok(Val::Ref(Box::new(strip_ref_once_keep(v))))
            }
            Expr::Unary(u) => {
                let v = self.eval(&u.expr)?;
                match u.op {
                    UnOp::Deref(_) => match v {
                        Val::Ref(b) => Ok(*b),
                        v => Ok(v),
                    },
                    UnOp::Neg(_) => self.neg(v),
                    UnOp::Not(_) => match strip_ref(v) {
                        Val::Bool(b) => Ok(Val::Bool(format!("(!{b})"))),
                        _ => Err("! on non-bool".into()),
                    },
                    _ => Err("unary op".into()),
                }
            }
            Expr::Binary(b) => {
                // compound assignment
                let (is_assign, tr, sym) = match b.op {
                    BinOp::AddAssign(_) => (true, "AddAssign", "+"),
                    BinOp::SubAssign(_) => (true, "SubAssign", "-"),
                    BinOp::MulAssign(_) => (true, "MulAssign", "*"),
                    BinOp::DivAssign(_) => (true, "DivAssign", "/"),
                    BinOp::Add(_) => (false, "Add", "+"),
                    BinOp::Sub(_) => (false, "Sub", "-"),
                    BinOp::Mul(_) => (false, "Mul", "*"),
                    BinOp::Div(_) => (false, "Div", "/"),
                    BinOp::Lt(_) => (false, "", "<"),
                    BinOp::Le(_) => (false, "", "<="),
                    BinOp::Gt(_) => (false, "", ">"),
                    BinOp::Ge(_) => (false, "", ">="),
                    BinOp::Eq(_) => (false, "", "=="),
                    BinOp::Ne(_) => (false, "", "!="),
                    BinOp::And(_) => (false, "", "&&"),
                    BinOp::Or(_) => (false, "", "||"),
                    _ => return Err("unsupported binary operator".into()),
                };
                if is_assign {
                    if self.depth_branch > 0 {
                        return Err("assignment inside a branch".into());
                    }
                    let cur = self.eval(&b.left)?;
                    let rhs = self.eval(&b.right)?;
                    let newv = self.assign_op(tr, sym, cur, rhs)?;
                    self.store(&b.left, newv)?;
                    return Ok(Val::Unit);
                }
                let l = self.eval(&b.left)?;
                let r = self.eval(&b.right)?;
                if tr.is_empty() {
                    return self.compare(sym, l, r);
                }
                self.binop(tr, sym, l, r)
            }
            Expr::Assign(a) => {
                if self.depth_branch > 0 {
                    return Err("assignment inside a branch".into());
                }
                let v = self.eval(&a.right)?;
                self.store(&a.left, v)?;
                Ok(Val::Unit)
            }
            Expr::Field(f) => {
                let base = self.eval(&f.base)?;
                let was_ref = is_ref(&base);
                let _ = was_ref;
                match (&f.member, strip_ref(base)) {
                    (syn::Member::Named(id), Val::Struct(_, fs)) => {
                        let n = id.to_string();
                        fs.into_iter().find(|(k, _)| *k == n).map(|(_, v)| v).ok_or(format!("no field {n}"))
                    }
                    (syn::Member::Unnamed(ix), Val::Tuple(vs)) => vs.get(ix.index as usize).cloned().ok_or("tuple index".into()),
                    _ => Err("field access on unsupported value".into()),
                }
            }
            Expr::Tuple(t) => {
                let mut vs = vec![];
                for e in &t.elems {
                    vs.push(self.eval(e)?);
                }
                if vs.is_empty() {
                    return Ok(Val::Unit);
                }
                Ok(Val::Tuple(vs))
            }
            Expr::Struct(s) => {
                let segs: Vec<String> = s.path.segments.iter().map(|x| x.ident.to_string()).collect();
                let ty = self.resolve_ty(&segs).ok_or(format!("struct literal of {}", segs.join("::")))?;
                let ti = self.db.types.get(&ty).ok_or("unknown type")?.clone();
                let mut fs = vec![];
                for (p, _) in &ti.parts {
                    let fv = s
                        .fields
                        .iter()
                        .find(|f| matches!(&f.member, syn::Member::Named(id) if id == p))
                        .ok_or(format!("missing field {p}"))?;
                    let v = self.eval(&fv.expr)?;
                    fs.push((p.clone(), v));
                }
                Ok(Val::Struct(ty, fs))
            }
            Expr::If(i) => {
                if matches!(&*i.cond, Expr::Let(_)) {
                    return Err("if let".into());
                }
                let c = match strip_ref(self.eval(&i.cond)?) {
                    Val::Bool(c) => c,
                    _ => return Err("non-bool condition".into()),
                };
                let c = self.fresh(c, "bool");
                self.depth_branch += 1;
                let a = self.eval_block(&i.then_branch)?;
                let b = match &i.else_branch {
                    Some((_, e)) => self.eval(e)?,
                    None => Val::Unit,
                };
                self.depth_branch -= 1;
                self.merge(&c, a, b)
            }
            Expr::Match(m) => {
                // scrutinee: an integer, a bool, or a tuple of those; patterns: literals, `_`, tuples, or-patterns; guards allowed.
                // The match is exhaustive (rustc checked it), so the last arm is the default of the if-chain.
                let scrut = strip_ref(self.eval(&m.expr)?);
                fn pat_cond(scrut: &Val, pat: &Pat) -> R<String> {
                    match (pat, scrut) {
                        (Pat::Wild(_), _) => Ok("true".into()),
                        (Pat::Paren(p), _) => pat_cond(scrut, &p.pat),
                        (Pat::Or(o), _) => {
                            let cs: R<Vec<String>> = o.cases.iter().map(|c| pat_cond(scrut, c)).collect();
                            Ok(format!("({})", cs?.join(" || ")))
                        }
                        (Pat::Lit(l), Val::Int(s)) => match &l.lit {
                            syn::Lit::Int(i) => Ok(format!("({s} == {})", i.base10_digits())),
                            _ => Err("match literal".into()),
                        },
                        (Pat::Lit(l), Val::Bool(s)) => match &l.lit {
                            syn::Lit::Bool(b) => Ok(if b.value { format!("({s})") } else { format!("(!({s}))") }),
                            _ => Err("match literal".into()),
                        },
                        (Pat::Tuple(t), Val::Tuple(vs)) if t.elems.len() == vs.len() => {
                            let mut cs = vec![];
                            for (p, v) in t.elems.iter().zip(vs.iter()) {
                                let v = strip_ref(v.clone());
                                cs.push(pat_cond(&v, p)?);
                            }
                            Ok(format!("({})", cs.join(" && ")))
                        }
                        _ => Err("match pattern".into()),
                    }
                }
                match &scrut {
                    Val::Int(_) | Val::Bool(_) | Val::Tuple(_) => {}
                    _ => return Err("match on unsupported value".into()),
                }
                let mut arms: Vec<(String, Val)> = vec![];
                self.depth_branch += 1;
                for arm in &m.arms {
                    let mut c = pat_cond(&scrut, &arm.pat)?;
                    if let Some((_, g)) = &arm.guard {
                        match strip_ref(self.eval(g)?) {
                            Val::Bool(gs) => c = format!("({c} && {gs})"),
                            _ => return Err("match guard is not a bool".into()),
                        }
                    }
                    let v = self.eval(&arm.body)?;
                    arms.push((c, v));
                }
                self.depth_branch -= 1;
                let (_, mut acc) = arms.pop().ok_or("empty match")?;
                while let Some((c, v)) = arms.pop() {
                    let c = self.fresh(c, "bool");
                    acc = self.merge(&c, v, acc)?;
                }
                Ok(acc)
            }
            Expr::Call(c) => self.eval_call(c),
            Expr::MethodCall(m) => self.eval_method(m),
            Expr::Cast(c) => {
                let v = strip_ref(self.eval(&c.expr)?);
                match v {
                    Val::Int(s) => Ok(Val::Int(s)),
                    _ => Err("cast".into()),
                }
            }
            Expr::Return(_) => Err("return".into()),
            Expr::Closure(_) => Err("closure".into()),
            Expr::Macro(m) => Err(format!("macro {}", quote::ToTokens::to_token_stream(&m.mac.path))),
            Expr::Try(_) => Err("? operator".into()),
            Expr::Index(_) => Err("index".into()),
            _ => Err("unsupported expression".into()),
        }
    }

    fn store(&mut self, place: &Expr, v: Val) -> R<()> {
        match place {
            Expr::Path(p) => {
                let segs = Self::path_segs(p);
                if segs.len() != 1 {
                    return Err("assign to path".into());
                }
                self.assign_var(&segs[0], v)
            }
            Expr::Unary(u) if matches!(u.op, UnOp::Deref(_)) => {
                // *self = v
                match &*u.expr {
                    Expr::Path(p) => {
                        let segs = Self::path_segs(p);
                        let old = self.lookup(&segs[0]).ok_or("unknown var")?;
                        let nv = if is_ref(&old) { Val::Ref(Box::new(strip_ref(v))) } else { v };
                        self.assign_var(&segs[0], nv)
                    }
                    _ => Err("deref-assign".into()),
                }
            }
            Expr::Field(f) => {
                let base = self.eval(&f.base)?;
                let wasref = is_ref(&base);
                match (&f.member, strip_ref(base)) {
                    (syn::Member::Named(id), Val::Struct(t, mut fs)) => {
                        let n = id.to_string();
                        let slot = fs.iter_mut().find(|(k, _)| *k == n).ok_or("no field")?;
                        slot.1 = v;
                        let nv = Val::Struct(t, fs);
                        let nv = if wasref { Val::Ref(Box::new(nv)) } else { nv };
                        self.store(&f.base, nv)
                    }
                    _ => Err("field store".into()),
                }
            }
            Expr::Paren(p) => self.store(&p.expr, v),
            _ => Err("unsupported place".into()),
        }
    }

    fn merge(&mut self, c: &str, a: Val, b: Val) -> R<Val> {
        match (a, b) {
            (Val::Real(x), Val::Real(y)) => Ok(self.real(format!("(if {c} {{ {x} }} else {{ {y} }})"))),
            (Val::Int(x), Val::Int(y)) => Ok(Val::Int(self.fresh(format!("(if {c} {{ {x} }} else {{ {y} }})"), "int"))),
            (Val::Bool(x), Val::Bool(y)) => Ok(Val::Bool(self.fresh(format!("(if {c} {{ {x} }} else {{ {y} }})"), "bool"))),
            (Val::Unit, Val::Unit) => Ok(Val::Unit),
            (Val::Deriv(x), Val::Deriv(y)) => Ok(Val::Deriv(mk(MatE::Ite(c.to_string(), x, y)))),
            (Val::Struct(t, fa), Val::Struct(t2, fb)) if t == t2 => {
                let mut fs = vec![];
                for ((n, x), (_, y)) in fa.into_iter().zip(fb) {
                    fs.push((n, self.merge(c, x, y)?));
                }
                Ok(Val::Struct(t, fs))
            }
            (Val::Tuple(xa), Val::Tuple(xb)) if xa.len() == xb.len() => {
                let mut vs = vec![];
                for (x, y) in xa.into_iter().zip(xb) {
                    vs.push(self.merge(c, x, y)?);
                }
                Ok(Val::Tuple(vs))
            }
            (Val::Ref(x), y) => self.merge(c, *x, y),
            (x, Val::Ref(y)) => self.merge(c, x, *y),
            (Val::Opt(ca, pa), Val::Opt(cb, pb)) => {
                let cc = self.fresh(format!("(if {c} {{ {ca} }} else {{ {cb} }})"), "bool");
                let p = self.merge(c, *pa, *pb)?;
                Ok(Val::Opt(cc, Box::new(p)))
            }
            _ => Err("branches of different shape".into()),
        }
    }

    fn neg(&mut self, v: Val) -> R<Val> {
        let r = is_ref(&v);
        match strip_ref(v) {
            Val::Deriv(m) => Ok(Val::Deriv(mk(MatE::Neg(m)))),
            Val::Real(x) => Ok(self.real(format!("(-{x})"))),
            Val::Int(x) => Ok(Val::Int(format!("(-{x})"))),
            Val::Struct(t, fs) => {
                let f = self.db.find_op(&t, "Neg", r, &Rhs::None).ok_or(format!("no Neg impl for {}{t}", if r { "&" } else { "" }))?.clone();
                self.call_func(&f, vec![Val::Struct(t, fs)])
            }
            _ => Err("neg on unsupported value".into()),
        }
    }

    fn compare(&mut self, sym: &str, l: Val, r: Val) -> R<Val> {
        match (strip_ref(l), strip_ref(r)) {
            (Val::Real(a), Val::Real(b)) | (Val::Int(a), Val::Int(b)) => Ok(Val::Bool(format!("({a} {sym} {b})"))),
            (Val::Bool(a), Val::Bool(b)) => Ok(Val::Bool(format!("({a} {sym} {b})"))),
            _ => Err(format!("comparison {sym} on unsupported values")),
        }
    }

    fn binop(&mut self, tr: &str, sym: &str, l: Val, r: Val) -> R<Val> {
        let lr = is_ref(&l);
        let rr = is_ref(&r);
        match (strip_ref(l), strip_ref(r)) {
            (Val::Real(a), Val::Real(b)) => Ok(self.real(format!("({a} {sym} {b})"))),
            (Val::Int(a), Val::Int(b)) => Ok(Val::Int(format!("({a} {sym} {b})"))),
            (Val::Deriv(a), Val::Real(b)) => match tr {
                "Mul" => Ok(Val::Deriv(mk(MatE::Scale(a, b)))),
                "Div" => Ok(Val::Deriv(mk(MatE::DivS(a, b)))),
                _ => Err(format!("Derivative {sym} scalar")),
            },
            (Val::Deriv(a), Val::Deriv(b)) => match tr {
                "Mul" => Ok(Val::Deriv(mk(MatE::MatMul(a, b)))),
                "Add" => Ok(Val::Deriv(mk(MatE::Add(a, b)))),
                "Sub" => Ok(Val::Deriv(mk(MatE::Sub(a, b)))),
                _ => Err(format!("Derivative {sym} Derivative")),
            },
            (Val::Struct(t, fs), Val::Struct(t2, fs2)) if t == t2 => {
                let rhs = if rr { Rhs::SelfRef } else { Rhs::SelfOwn };
                let f = self.db.find_op(&t, tr, lr, &rhs).ok_or(format!("no {tr} impl ({lr},{rr}) for {t}"))?.clone();
                self.call_func(&f, vec![Val::Struct(t, fs), Val::Struct(t2, fs2)])
            }
            (Val::Struct(t, fs), Val::Real(b)) => {
                // scalar operand: F (the crate has no T-operand operators on the number types)
                let f = self.db.find_op(&t, tr, lr, &Rhs::Fl).ok_or(format!("no {tr}<F> impl for {t}"))?.clone();
                self.call_func(&f, vec![Val::Struct(t, fs), Val::Real(b)])
            }
            _ => Err(format!("binary {sym} on unsupported values")),
        }
    }

    fn assign_op(&mut self, tr: &str, sym: &str, cur: Val, rhs: Val) -> R<Val> {
        let wasref = is_ref(&cur);
        let rr = is_ref(&rhs);
        let out = match (strip_ref(cur), strip_ref(rhs)) {
            (Val::Real(a), Val::Real(b)) => self.real(format!("({a} {sym} {b})")),
            (Val::Deriv(a), Val::Real(b)) => match tr {
                "MulAssign" => Val::Deriv(mk(MatE::Scale(a, b))),
                "DivAssign" => Val::Deriv(mk(MatE::DivS(a, b))),
                _ => return Err("Derivative op= scalar".into()),
            },
            (Val::Deriv(a), Val::Deriv(b)) => match tr {
                "AddAssign" => Val::Deriv(mk(MatE::Add(a, b))),
                "SubAssign" => Val::Deriv(mk(MatE::Sub(a, b))),
                _ => return Err("Derivative op= Derivative".into()),
            },
            (Val::Int(a), Val::Int(b)) => Val::Int(format!("({a} {sym} {b})")),
            (Val::Struct(t, fs), Val::Struct(t2, fs2)) if t == t2 => {
                let rk = if rr { Rhs::SelfRef } else { Rhs::SelfOwn };
                let f = self.db.find_op(&t, tr, false, &rk).ok_or(format!("no {tr} impl for {t}"))?.clone();
                self.call_mut_self(&f, Val::Struct(t, fs), vec![Val::Struct(t2, fs2)])?
            }
            (Val::Struct(t, fs), Val::Real(b)) => {
                let f = self.db.find_op(&t, tr, false, &Rhs::Fl).ok_or(format!("no {tr}<F> impl for {t}"))?.clone();
                self.call_mut_self(&f, Val::Struct(t, fs), vec![Val::Real(b)])?
            }
            _ => return Err(format!("compound {sym}= on unsupported values")),
        };
        Ok(if wasref { Val::Ref(Box::new(out)) } else { out })
    }

    fn eval_args(&mut self, args: &syn::punctuated::Punctuated<Expr, syn::token::Comma>) -> R<Vec<Val>> {
        let mut v = vec![];
        for a in args {
            v.push(self.eval(a)?);
        }
        Ok(v)
    }

    fn eval_call(&mut self, c: &syn::ExprCall) -> R<Val> {
        let p = match &*c.func {
            Expr::Path(p) => p,
            _ => return Err("call of non-path".into()),
        };
        let segs = Self::path_segs(p);
        let name = segs.last().unwrap().clone();
        let head = &segs[..segs.len() - 1];
        // inherent functions of the primitive float: <f64>::sin(*self), <f64>::mul_add(*self, a, b)
        if head.len() == 1 && head[0] == "f64" {
            let mut args = self.eval_args(&c.args)?;
            if args.is_empty() {
                return Err("float static without receiver".into());
            }
            let x = match strip_ref(args.remove(0)) {
                Val::Real(x) => x,
                _ => return Err("float function on non-scalar".into()),
            };
            if name == "mul_add" && args.len() == 2 {
                if let (Val::Real(a), Val::Real(b)) = (strip_ref(args[0].clone()), strip_ref(args[1].clone())) {
                    return Ok(self.real(format!("(({x} * {a}) + {b})")));
                }
            }
            let v = scalar_method(&name, &x, &args).ok_or(format!("unsupported float function {name}"))?;
            return Ok(match v {
                Val::Real(e) => self.real(e),
                o => o,
            });
        }
        // scalar statics
        let nested_t = head.len() == 1 && head[0] == "T" && self.db.nested.contains_key(&self.cur);
        if head.len() == 1 && (head[0] == "T" || head[0] == "F") && !nested_t {
            let args = self.eval_args(&c.args)?;
            return match (name.as_str(), args.len()) {
                ("one", 0) => Ok(Val::Real("1real".into())),
                ("zero", 0) => Ok(Val::Real("0real".into())),
                ("epsilon", 0) => Ok(Val::Real("eps_r()".into())),
                ("from", 1) if head[0] == "T" => Ok(strip_ref(args[0].clone())),
                ("E", 0) | ("PI", 0) | ("FRAC_1_PI", 0) | ("FRAC_1_SQRT_2", 0) | ("FRAC_2_PI", 0) | ("FRAC_2_SQRT_PI", 0)
                | ("FRAC_PI_2", 0) | ("FRAC_PI_3", 0) | ("FRAC_PI_4", 0) | ("FRAC_PI_6", 0) | ("FRAC_PI_8", 0) | ("LN_10", 0)
                | ("LN_2", 0) | ("LOG10_E", 0) | ("LOG2_E", 0) | ("SQRT_2", 0) | ("TAU", 0) => Ok(Val::Real(format!("c_{name}()"))),
                _ => Err(format!("unsupported scalar static {}::{}", head[0], name)),
            };
        }
        // Some(..)
        if head.is_empty() && name == "Some" && c.args.len() == 1 {
            let v = self.eval(&c.args[0])?;
            return Ok(Val::Opt("true".into(), Box::new(v)));
        }
        // trait-qualified call DualNum::recip(&self), Clone::clone(&x)
        if head.len() == 1 && ["DualNum", "Signed", "Zero", "One", "Inv", "Clone", "Neg"].contains(&head[0].as_str()) || (head.len() >= 2 && head[head.len() - 1] == "Clone") {
            let mut args = self.eval_args(&c.args)?;
            if args.is_empty() {
                return Err("trait static without receiver".into());
            }
            let recv = args.remove(0);
            return self.method_on(recv, &name, args);
        }
        if head.len() == 1 && head[0] == "Derivative" && name == "none" && c.args.is_empty() {
            return Ok(Val::Deriv(mk(MatE::Zero)));
        }
        let ty = self.resolve_ty(&head.to_vec()).ok_or(format!("call of {}", segs.join("::")))?;
        let args = self.eval_args(&c.args)?;
        if name == "new" && is_vec_type(self.db, &ty) && ty != "Derivative" {
            // struct constructor of a vector type: parts by position (its exec contract is field-wise equality)
            let ti = self.db.types[&ty].clone();
            if ti.parts.len() != args.len() {
                return Err("constructor arity".into());
            }
            let fs = ti.parts.iter().map(|(p, _)| p.clone()).zip(args.into_iter().map(strip_ref)).collect();
            return Ok(Val::Struct(ty, fs));
        }
        let f = self.db.find_method(&ty, &name).ok_or(format!("no function {ty}::{name}"))?.clone();
        let ps = params_of(self.db, &f)?;
        if ps.first().map(|p| p.name == "self" && p.is_mut).unwrap_or(false) {
            return Err("UFCS call of &mut self method".into());
        }
        self.call_func(&f, args)
    }

    fn method_on(&mut self, recv: Val, name: &str, args: Vec<Val>) -> R<Val> {
        // operator-trait methods written as method calls: `a.neg()`, `a.add(b)`, `a.mul(b)`, ... are the operators
        if name == "neg" && args.is_empty() {
            return self.neg(recv);
        }
        if args.len() == 1 {
            let op = match name {
                "add" => Some(("Add", "+")),
                "sub" => Some(("Sub", "-")),
                "mul" => Some(("Mul", "*")),
                "div" => Some(("Div", "/")),
                _ => None,
            };
            if let Some((tr, sym)) = op {
                let mut args = args;
                let rhs = args.remove(0);
                return self.binop(tr, sym, recv, rhs);
            }
        }
        let recv_s = strip_ref(recv.clone());
        match recv_s {
            Val::Real(x) => {
                if name == "unwrap" {
                    return Err("unwrap on scalar".into());
                }
                let v = scalar_method(name, &x, &args).ok_or(format!("unsupported scalar method {name}"))?;
                Ok(match v {
                    Val::Real(e) => self.real(e),
                    o => o,
                })
            }
            Val::Struct(t, fs) => {
                if name == "clone" {
                    return Ok(Val::Struct(t, fs));
                }
                let fm = if self.field_ctx && !is_ref(&recv) { self.db.find_field_method(&t, name) } else { None };
                let f = fm.or_else(|| self.db.find_method(&t, name)).ok_or(format!("no method {t}::{name}"))?.clone();
                let mut all = vec![Val::Struct(t, fs)];
                all.extend(args);
                self.call_func(&f, all)
            }
            Val::Tuple(vs) if name == "clone" => Ok(Val::Tuple(vs)),
            Val::Deriv(m) => match (name, args.len()) {
                ("clone", 0) => Ok(Val::Deriv(m)),
                ("tr_mul", 1) => match strip_ref(args[0].clone()) {
                    Val::Deriv(o) => Ok(Val::Deriv(mk(MatE::TrMul(m, o)))),
                    _ => Err("tr_mul argument".into()),
                },
                _ => Err(format!("Derivative method {name}")),
            },
            Val::Opt(c, p) => match name {
                "unwrap" => Ok(*p),
                "is_some" => Ok(Val::Bool(c)),
                "is_none" => Ok(Val::Bool(format!("(!{c})"))),
                _ => Err(format!("Option method {name}")),
            },
            _ => Err(format!("method {name} on unsupported value")),
        }
    }

    fn eval_method(&mut self, m: &syn::ExprMethodCall) -> R<Val> {
        let name = m.method.to_string();
        // F::from(<lit or int>).unwrap()
        if name == "unwrap" {
            if let Expr::Call(c) = &*m.receiver {
                if let Expr::Path(p) = &*c.func {
                    let segs = Self::path_segs(p);
                    if segs == ["F", "from"] && c.args.len() == 1 {
                        if let Some(s) = float_lit_to_real(&c.args[0]) {
                            return Ok(Val::Real(s));
                        }
                        let v = strip_ref(self.eval(&c.args[0])?);
                        return match v {
                            Val::Int(s) => Ok(Val::Real(format!("(({s}) as real)"))),
                            Val::Real(s) => Ok(Val::Real(s)),
                            _ => Err("F::from of unsupported value".into()),
                        };
                    }
                }
            }
        }
        let recv = self.eval(&m.receiver)?;
        let args = self.eval_args(&m.args)?;
        // &mut self methods on a place (e.g. self.eps1 = ..; handled via assignment) are not called by method syntax in scope
        self.method_on(recv, &name, args)
    }
}

fn strip_ref_once_keep(v: Val) -> Val {
    // &(&x) keeps a single level for our purposes
    match v {
        Val::Ref(b) => *b,
        v => v,
    }
}

fn is_atom(e: &str) -> bool {
    e.chars().all(|c| c.is_alphanumeric() || c == '_') || (e.ends_with("real") && e[..e.len() - 4].chars().all(|c| c.is_ascii_digit()))
}

/// flatten a result value into (part, expr, sort)
fn outs_of(ev: &mut Ev, v: &Val, k: &Kind, prefix: &str, out: &mut Vec<(String, String, &'static str)>) -> R<()> {
    let key = |s: &str| if prefix.is_empty() { s.to_string() } else if s.is_empty() { prefix.to_string() } else { format!("{prefix}_{s}") };
    match (strip_ref(v.clone()), k) {
        (Val::Real(s), Kind::Sc | Kind::Fl) => out.push((key(if prefix.is_empty() { "ret" } else { "" }), s, "real")),
        (Val::Int(s), Kind::Int(_)) => out.push((key(if prefix.is_empty() { "ret" } else { "" }), s, "int")),
        (Val::Bool(s), Kind::Bool) => out.push((key(if prefix.is_empty() { "ret" } else { "" }), s, "bool")),
        (Val::Unit, Kind::Unit) => {}
        (Val::Struct(t, fs), Kind::Struct(t2)) if &t == t2 => {
            let whole = Val::Struct(t.clone(), fs.clone());
            for (oname, part, idx) in vec_outs(ev.db, &t) {
                let fv = get_path(&whole, &part).ok_or("missing part in result")?;
                match strip_ref(fv) {
                    Val::Real(s) => out.push((key(&oname), s, "real")),
                    Val::Deriv(m) => {
                        let (row_unit, _) = part_orient(ev.db, &t, &part);
                        let e = match idx.as_slice() {
                            [x] => {
                                let (a, b) = if row_unit { (Ix::Z, *x) } else { (*x, Ix::Z) };
                                ev.mat_at(&m, a, b)?
                            }
                            _ => ev.mat_at(&m, Ix::I, Ix::J)?,
                        };
                        out.push((key(&oname), e, "real"));
                    }
                    _ => return Err("non-scalar part in result".into()),
                }
            }
        }
        (Val::Tuple(vs), Kind::Tuple(ks)) if vs.len() == ks.len() => {
            for (i, (v, k)) in vs.iter().zip(ks).enumerate() {
                outs_of(ev, v, k, &key(&i.to_string()), out)?;
            }
        }
        (v, k) => return Err(format!("result shape mismatch {:?} vs {:?}", v, k)),
    }
    Ok(())
}

pub fn mirror_of(db: &Db, f: &Func, sigs: &HashMap<String, Mirror>) -> R<Mirror> {
    let ps = params_of(db, f)?;
    let ret = ret_kind(db, f)?;
    let mut ev = Ev { db, cur: f.ty.clone(), lets: vec![], scopes: vec![HashMap::new()], n: 0, depth_branch: 0, sigs, memo: HashMap::new(), field_ctx: f.prefix == "cf_" || f.prefix == "rf_" };
    let mut params = vec![];
    let mut mutates_self = false;
    for p in &ps {
        // `self` is a keyword: a scalar receiver (plain-float unit) is called self_v in the mirror
        let root = if p.name == "self" && matches!(p.kind, Kind::Sc | Kind::Fl) { "self_v".to_string() } else { p.name.clone() };
        flat_kind(db, &root, &p.kind, &mut params)?;
        let v = val_of_kind(db, &root, &p.kind)?;
        if p.is_mut && p.name == "self" {
            mutates_self = true;
        } else if p.is_mut {
            return Err("&mut parameter other than self".into());
        }
        let v = if p.is_ref { Val::Ref(Box::new(v)) } else { v };
        ev.scopes[0].insert(p.name.clone(), v);
    }
    let res = ev.eval_block(&f.item.block)?;
    let mut outs = vec![];
    if mutates_self {
        if ret != Kind::Unit {
            return Err("&mut self function with a return value".into());
        }
        let sv = ev.lookup("self").unwrap();
        outs_of(&mut ev, &sv, &Kind::Struct(f.ty.clone()), "", &mut outs)?;
    } else {
        outs_of(&mut ev, &res, &ret, "", &mut outs)?;
    }
    Ok(Mirror { params, lets: ev.lets, outs, ret, mutates_self })
}
