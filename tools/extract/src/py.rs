//! Unit "Py": the pure wrapper methods of the #[pyclass] types (expansion with --features python).
//! Reduced scope (C17): every extracted wrapper body is verified against a forwarding contract
//! `ret.0 == i_<rust op>(self.0, ...)` over an abstract inner number type; PyO3 argument extraction, the
//! PyAny-typed operator dunders, numpy branches, getters and module registration are not extracted.
use crate::rewrite::Rw;
use quote::ToTokens;
use serde_json::json;
use std::collections::{BTreeMap, HashSet};
use syn::visit_mut::VisitMut;
use syn::{FnArg, ImplItem, Item};

pub struct PyOut {
    pub exec: String,
    pub meta: serde_json::Value,
}

struct Class {
    name: String,
    inner_ident: String,
    line: usize,
}

fn walk<'a>(items: &'a [Item], classes: &mut Vec<Class>, impls: &mut Vec<&'a syn::ItemImpl>) {
    use syn::spanned::Spanned;
    for it in items {
        match it {
            Item::Mod(m) => {
                if let Some((_, items)) = &m.content {
                    walk(items, classes, impls);
                }
            }
            Item::Struct(s) if s.ident.to_string().starts_with("Py") => {
                if let syn::Fields::Unnamed(u) = &s.fields {
                    if u.unnamed.len() == 1 {
                        if let Some((id, _)) = crate::db::type_last_ident(&u.unnamed[0].ty) {
                            classes.push(Class { name: s.ident.to_string(), inner_ident: id, line: s.span().start().line });
                        }
                    }
                }
            }
            Item::Impl(im) => impls.push(im),
            _ => {}
        }
    }
}

pub fn emit_py(file: &syn::File, contracts: &serde_json::Value, only: Option<&Vec<String>>) -> PyOut {
    use syn::spanned::Spanned;
    let mut classes = vec![];
    let mut impls = vec![];
    walk(&file.items, &mut classes, &mut impls);
    let table = &contracts["py_methods"];
    let mut exec = String::new();
    let mut fns = vec![];
    let mut skipped: BTreeMap<String, usize> = BTreeMap::new();
    let mut rule_counts: BTreeMap<String, usize> = BTreeMap::new();
    let mut nclasses = 0;
    for c in &classes {
        if let Some(o) = only {
            if !o.contains(&c.name) {
                continue;
            }
        }
        nclasses += 1;
        exec.push_str(&format!("// ---- class {} (wraps {}) [expanded line {}]\n", c.name, c.inner_ident, c.line));
        exec.push_str(&format!("pub struct {}(pub Inner);\n", c.name));
        for im in &impls {
            let Some((ty, _)) = crate::db::type_last_ident(&im.self_ty) else { continue };
            if ty != c.name {
                continue;
            }
            let is_from = im.trait_.as_ref().map(|t| t.1.segments.last().unwrap().ident == "From").unwrap_or(false);
            if im.trait_.is_some() && !is_from {
                continue;
            }
            for ii in &im.items {
                let ImplItem::Fn(f) = ii else { continue };
                let name = f.sig.ident.to_string();
                let key = if is_from { "from_inner".to_string() } else { name.clone() };
                let entry = &table[key.as_str()];
                if !entry.is_object() {
                    *skipped.entry(name.clone()).or_insert(0) += 1;
                    continue;
                }
                // parameters
                let mut float_params = HashSet::new();
                let mut ints = HashSet::new();
                let mut sig_params = vec![];
                let mut bad = false;
                for a in &f.sig.inputs {
                    match a {
                        FnArg::Receiver(r) => sig_params.push(if r.reference.is_some() { "&self".to_string() } else { "self".to_string() }),
                        FnArg::Typed(pt) => {
                            let pn = match &*pt.pat {
                                syn::Pat::Ident(i) => i.ident.to_string(),
                                _ => {
                                    bad = true;
                                    continue;
                                }
                            };
                            let ts = pt.ty.to_token_stream().to_string();
                            let ty = if ts == "f64" {
                                float_params.insert(pn.clone());
                                "Fl".to_string()
                            } else if ts == "i32" {
                                ints.insert(pn.clone());
                                "i32".to_string()
                            } else if ts == "Self" {
                                "Self".to_string()
                            } else if crate::db::type_last_ident(&pt.ty).map(|x| x.0 == c.inner_ident).unwrap_or(false) {
                                "Inner".to_string()
                            } else {
                                bad = true;
                                ts
                            };
                            sig_params.push(format!("{pn}: {ty}"));
                        }
                    }
                }
                if bad {
                    *skipped.entry(name.clone()).or_insert(0) += 1;
                    continue;
                }
                let mut rw = Rw::new(ints);
                rw.py_unit = Some((c.inner_ident.clone(), float_params));
                let mut block = f.block.clone();
                rw.visit_block_mut(&mut block);
                if rw.err.is_some() {
                    *skipped.entry(name.clone()).or_insert(0) += 1;
                    continue;
                }
                let ret = entry["ret"].as_str().unwrap_or("Self");
                let ens: Vec<String> = entry["ensures"].as_array().map(|a| a.iter().filter_map(|x| x.as_str()).map(|x| x.replace("{r}", crate::emit::RES)).collect()).unwrap_or_default();
                let start = exec.lines().count() + 1;
                exec.push_str(&format!("// @fn {}::{} [expanded.rs:{}-{}]\n", c.name, key, f.span().start().line, f.span().end().line));
                exec.push_str(&format!(
                    "impl {} {{ pub fn {}({}) -> ({}: {}) ensures {}\n{} }}\n",
                    c.name,
                    key,
                    sig_params.join(", "),
                    crate::emit::RES,
                    ret,
                    ens.join(", "),
                    block.to_token_stream()
                ));
                let end = exec.lines().count();
                for (k, v) in &rw.counts {
                    *rule_counts.entry(k.to_string()).or_insert(0) += v;
                }
                fns.push(json!({"id": format!("{}::{}", c.name, key), "ty": c.name, "name": key, "trait": if is_from { json!("From") } else { json!(null) },
                    "mname": format!("py_{}_{}", c.name, key), "gen_line": start, "gen_end_line": end, "src_line": f.span().start().line, "src_end_line": f.span().end().line,
                    "manual": true, "props": ["C17"], "what": entry["what"], "params": [], "outs": [], "requires": []}));
            }
        }
    }
    let skipped_v: Vec<serde_json::Value> = skipped.iter().map(|(k, v)| json!({"id": format!("Py*::{k}"), "reason": format!("not a pure wrapper method in the contract table (PyO3 types / getters); {v} occurrences")})).collect();
    PyOut {
        exec,
        meta: json!({"unit": "Py", "parts": [], "leaves": [], "outs": [], "classes": nclasses, "functions": fns, "skipped": skipped_v, "rewrite_rule_counts": rule_counts}),
    }
}
