//! Rewrite rules R1, R3, R5', R8, R9 applied to the verbatim function text (see DESIGN.md §2.1).
use crate::db::TYPE_NAMES;
use crate::eval::float_lit_to_real;
use std::collections::{BTreeMap, HashSet};
use syn::visit_mut::{self, VisitMut};
use quote::ToTokens;
use syn::{parse_quote, BinOp, Expr, Type, UnOp};

pub struct Rw {
    /// generic parameters of the impl / fn that are nalgebra dimensions (R1: mapped to the model type `Dm`)
    pub dims: HashSet<String>,
    pub ints: HashSet<String>,
    pub counts: BTreeMap<&'static str, usize>,
    pub err: Option<String>,
    pub rename_self: bool,
    /// inside a ComplexField / RealField body: method name -> emitted (prefixed) name of the field-trait method
    pub field_methods: std::collections::HashMap<String, String>,
    /// by-value parameters of the number type itself (receivers for which the field-trait method is found first)
    pub field_recv: HashSet<String>,
    /// the plain-float unit: f64 -> Fp, <f64>::f -> Fp::std_f, float literals -> Fp::lit
    pub float_unit: bool,
    /// nested unit: (outer type name, nested struct name, inner type name substituted for T)
    pub nested: Option<(String, String, String)>,
    /// Display bodies (rule R6): write_fmt(format_args!(..)) -> sequence of f.lit(id) / f.disp(&x); `?` dropped; string literals -> ids
    pub display_unit: bool,
    /// Python wrapper unit: (identifier of the wrapped Rust type -> Inner, float-typed parameter names)
    pub py_unit: Option<(String, HashSet<String>)>,
}

/// FNV-1a 64 of the UTF-8 text: identifies a literal piece of output without string reasoning in the verifier
pub fn lit_id(s: &str) -> u64 {
    let mut h: u64 = 0xcbf29ce484222325;
    for b in s.as_bytes() {
        h ^= *b as u64;
        h = h.wrapping_mul(0x100000001b3);
    }
    h
}

struct FmtArgs {
    fmt: syn::LitStr,
    args: Vec<Expr>,
}
impl syn::parse::Parse for FmtArgs {
    fn parse(input: syn::parse::ParseStream) -> syn::Result<Self> {
        let fmt: syn::LitStr = input.parse()?;
        let mut args = vec![];
        while !input.is_empty() {
            let _: syn::Token![,] = input.parse()?;
            if input.is_empty() {
                break;
            }
            args.push(input.parse()?);
        }
        Ok(FmtArgs { fmt, args })
    }
}

impl Rw {
    pub fn new(ints: HashSet<String>) -> Self {
        Rw { dims: HashSet::new(), ints, counts: BTreeMap::new(), err: None, rename_self: false, field_methods: Default::default(), field_recv: HashSet::new(), float_unit: false, nested: None, display_unit: false, py_unit: None }
    }
    fn bump(&mut self, k: &'static str) {
        *self.counts.entry(k).or_insert(0) += 1;
    }
    pub fn is_int(&self, e: &Expr) -> bool {
        match e {
            Expr::Lit(l) => matches!(l.lit, syn::Lit::Int(_)),
            Expr::Path(p) => p.path.get_ident().map(|i| self.ints.contains(&i.to_string())).unwrap_or(false),
            Expr::Paren(p) => self.is_int(&p.expr),
            Expr::Group(p) => self.is_int(&p.expr),
            Expr::Unary(u) => matches!(u.op, UnOp::Neg(_)) && self.is_int(&u.expr),
            Expr::Binary(b) => self.is_int(&b.left) && self.is_int(&b.right),
            Expr::Cast(c) => matches!(&*c.ty, Type::Path(p) if p.path.get_ident().map(|i| ["i32","usize","u32","i64","u64","isize"].contains(&i.to_string().as_str())).unwrap_or(false)),
            Expr::MethodCall(m) => m.method == "value" || m.method == "len",
            _ => false,
        }
    }
}

fn strip_known_generics(path: &mut syn::Path, rw: &mut Rw) {
    let n = path.segments.len();
    for (i, seg) in path.segments.iter_mut().enumerate() {
        let id = seg.ident.to_string();
        if let Some((outer, nname, inner)) = rw.nested.clone() {
            if id == outer {
                seg.ident = syn::Ident::new(&nname, seg.ident.span());
                seg.arguments = syn::PathArguments::None;
                rw.bump("R1_nested_outer");
                continue;
            }
            if i == 0 && id == "T" && seg.arguments.is_none() {
                seg.ident = syn::Ident::new(&inner, seg.ident.span());
                rw.bump("R1_T_to_inner");
                continue;
            }
        }
        if TYPE_NAMES.contains(&id.as_str()) || id == "DualNum" {
            if !matches!(seg.arguments, syn::PathArguments::None) {
                seg.arguments = syn::PathArguments::None;
                rw.bump("R1_strip_generics");
            }
        }
        if ["OMatrix", "OVector", "Matrix", "SVector", "SMatrix", "DVector", "DMatrix"].contains(&id.as_str()) {
            seg.ident = syn::Ident::new("Mx", seg.ident.span());
            seg.arguments = syn::PathArguments::None;
            rw.bump("R1_matrix_to_Mx");
        }
        if n == 1 && (rw.dims.contains(&id) || id == "U1") && seg.arguments.is_none() {
            seg.ident = syn::Ident::new("Dm", seg.ident.span());
            rw.bump("R1_dim_to_Dm");
            continue;
        }
        if rw.float_unit && n == 1 && id == "f64" {
            seg.ident = syn::Ident::new("Fp", seg.ident.span());
            rw.bump("R1_f64_to_Fp");
            continue;
        }
        if n >= 1 && i == 0 && seg.arguments.is_none() {
            if id == "T" {
                seg.ident = syn::Ident::new("Sc", seg.ident.span());
                rw.bump("R1_T_to_Sc");
            } else if id == "F" {
                seg.ident = syn::Ident::new("Fl", seg.ident.span());
                rw.bump("R1_F_to_Fl");
            }
        }
    }
}

impl VisitMut for Rw {
    fn visit_type_mut(&mut self, t: &mut Type) {
        if let Some((inner, _)) = &self.py_unit {
            if let Type::Path(p) = t {
                let last = p.path.segments.last().map(|s| s.ident.to_string()).unwrap_or_default();
                if &last == inner {
                    *t = parse_quote!(Inner);
                    return;
                }
                if last == "f64" {
                    *t = parse_quote!(Fl);
                    return;
                }
            }
        }
        if self.display_unit {
            if let Type::Reference(r) = t {
                if let Type::Path(p) = &*r.elem {
                    if p.path.is_ident("str") {
                        // R6: text is identified by the id of its bytes
                        *t = parse_quote!(u64);
                        return;
                    }
                }
            }
            if let Type::Path(p) = t {
                let last = p.path.segments.last().map(|s| s.ident.to_string()).unwrap_or_default();
                if last == "Formatter" {
                    *t = parse_quote!(Fmt);
                    return;
                }
                if last == "Result" && p.path.segments.len() == 2 {
                    *t = parse_quote!(FmtResult);
                    return;
                }
            }
        }
        if let Type::Path(p) = t {
            if p.qself.is_none() && p.path.segments.len() == 2 && p.path.segments[0].ident == "Self" && p.path.segments[1].ident == "RealField" {
                *t = parse_quote!(Self);
                self.bump("R2_RealField_is_Self");
                return;
            }
            if let Some(q) = &mut p.qself {
                self.visit_type_mut(&mut q.ty);
            }
            strip_known_generics(&mut p.path, self);
            // generic args of remaining segments
            for seg in p.path.segments.iter_mut() {
                if let syn::PathArguments::AngleBracketed(a) = &mut seg.arguments {
                    for g in a.args.iter_mut() {
                        if let syn::GenericArgument::Type(t) = g {
                            self.visit_type_mut(t);
                        }
                    }
                }
            }
            return;
        }
        visit_mut::visit_type_mut(self, t);
    }

    fn visit_expr_mut(&mut self, e: &mut Expr) {
        // R3: F::from(<float literal expr>).unwrap() / F::from(<int expr>).unwrap()
        if let Expr::MethodCall(m) = e {
            if m.method == "unwrap" && m.args.is_empty() {
                if let Expr::Call(c) = &*m.receiver {
                    if let Expr::Path(p) = &*c.func {
                        let segs: Vec<String> = p.path.segments.iter().map(|s| s.ident.to_string()).collect();
                        if segs == ["F", "from"] && c.args.len() == 1 {
                            let a = c.args[0].clone();
                            if let Some(r) = float_lit_to_real(&a) {
                                let ts: proc_macro2::TokenStream = r.parse().unwrap();
                                *e = parse_quote!(Fl::lit(Ghost(#ts)));
                                self.bump("R3_float_literal");
                                return;
                            } else if self.is_int(&a) {
                                let mut a2 = a.clone();
                                self.visit_expr_mut(&mut a2);
                                *e = parse_quote!(Fl::from_i32(#a2));
                                self.bump("R3_from_i32");
                                return;
                            }
                        }
                    }
                }
            }
        }
        if let Some((inner, floats)) = self.py_unit.clone() {
            // x.into(): identity on a float parameter, otherwise the conversion Inner -> wrapper class (From impl of the class)
            if let Expr::MethodCall(m) = e {
                if m.method == "into" && m.args.is_empty() {
                    let is_float = matches!(&*m.receiver, Expr::Path(p) if p.path.get_ident().map(|i| floats.contains(&i.to_string())).unwrap_or(false));
                    let r = (*m.receiver).clone();
                    if is_float {
                        *e = r;
                    } else {
                        *e = parse_quote!(Self::from_inner(#r));
                    }
                    self.bump("R10_into");
                }
            }
            // <Dual64>::from_re(..) -> Inner::from_re(..)
            if let Expr::Path(p) = e {
                if let Some(q) = &p.qself {
                    let tn = crate::db::type_last_ident(&q.ty).map(|x| x.0).unwrap_or_default();
                    if tn == inner && p.path.segments.len() == 1 {
                        let id = p.path.segments[0].ident.clone();
                        *e = parse_quote!(Inner::#id);
                        self.bump("R1_inner_type");
                        return;
                    }
                }
            }
        }
        if self.py_unit.is_some() {
            // R3 (Python wrappers): a float literal expression such as `1.0 / 3.0` is the float constant of that value
            if !matches!(e, Expr::Lit(syn::ExprLit { lit: syn::Lit::Int(_), .. })) {
                if let Some(r) = float_lit_to_real(e) {
                    if r.contains("real") {
                        let ts: proc_macro2::TokenStream = r.parse().unwrap();
                        *e = parse_quote!(Fl::lit(Ghost(#ts)));
                        self.bump("R3_float_literal");
                        return;
                    }
                }
            }
        }
        if self.display_unit {
            // R11: `m.iter().map(T::to_string).collect()` -> `m.to_strings()` (all entries in storage order, each rendered by Display)
            if let Expr::MethodCall(c) = e {
                if c.method == "collect" && c.args.is_empty() {
                    if let Expr::MethodCall(mp) = &*c.receiver {
                        // `T::to_string` or the closure `|x| x.to_string()`
                        let is_to_string = mp.args.len() == 1
                            && (matches!(&mp.args[0], Expr::Path(p) if p.path.segments.last().map(|s| s.ident == "to_string").unwrap_or(false))
                                || matches!(&mp.args[0], Expr::Closure(c) if c.inputs.len() == 1
                                    && matches!(&*c.body, Expr::MethodCall(b) if b.method == "to_string" && b.args.is_empty()
                                        && matches!((&c.inputs[0], &*b.receiver), (syn::Pat::Ident(pi), Expr::Path(rp)) if rp.path.is_ident(&pi.ident)))));
                        if mp.method == "map" && is_to_string {
                            if let Expr::MethodCall(it) = &*mp.receiver {
                                if it.method == "iter" && it.args.is_empty() {
                                    let recv = (*it.receiver).clone();
                                    *e = parse_quote!(#recv.to_strings());
                                    self.bump("R11_iter_map_to_string_collect");
                                    return;
                                }
                            }
                        }
                    }
                }
            }
            // R11: `m.iter().all(T::is_zero)` (or the closure `|x| x.is_zero()`) -> `m.all_zero()`
            if let Expr::MethodCall(c) = e {
                if c.method == "all" && c.args.len() == 1 {
                    let is_zero_fn = matches!(&c.args[0], Expr::Path(p) if p.path.segments.last().map(|s| s.ident == "is_zero").unwrap_or(false))
                        || matches!(&c.args[0], Expr::Closure(cl) if cl.inputs.len() == 1 && matches!(&*cl.body, Expr::MethodCall(b) if b.method == "is_zero" && b.args.is_empty()));
                    if is_zero_fn {
                        if let Expr::MethodCall(it) = &*c.receiver {
                            if it.method == "iter" && it.args.is_empty() {
                                let recv = (*it.receiver).clone();
                                *e = parse_quote!(#recv.all_zero());
                                self.bump("R11_iter_all_is_zero");
                                return;
                            }
                        }
                    }
                }
            }
            // R11: linear index read `m[k]` -> `*m.lin_ref(k)`
            if let Expr::Index(ix) = e {
                let base = (*ix.expr).clone();
                let k = (*ix.index).clone();
                *e = parse_quote!((*#base.lin_ref(#k)));
                self.bump("R11_linear_index_read");
                return;
            }
            // R6: `Ok(())` of fmt::Result
            if let Expr::Call(c) = e {
                if c.args.len() == 1 && matches!(&*c.func, Expr::Path(p) if p.path.is_ident("Ok")) && matches!(&c.args[0], Expr::Tuple(t) if t.elems.is_empty()) {
                    *e = parse_quote!(fmt_ok());
                    self.bump("R6_ok_unit");
                    return;
                }
            }
            // R6
            if let Expr::Try(t) = e {
                let inner = (*t.expr).clone();
                *e = inner;
                self.bump("R6_drop_try");
            }
            if let Expr::MethodCall(m) = e {
                if m.method == "write_fmt" && m.args.len() == 1 {
                    if let Expr::Macro(mac) = &m.args[0] {
                        if mac.mac.path.is_ident("format_args") {
                            match syn::parse2::<FmtArgs>(mac.mac.tokens.clone()) {
                                Ok(fa) => {
                                    let recv = &m.receiver;
                                    let text = fa.fmt.value();
                                    let mut stmts: Vec<syn::Stmt> = vec![];
                                    let mut rest = text.as_str();
                                    let mut ok = true;
                                    let mut implicit = 0usize;
                                    loop {
                                        match rest.find('{') {
                                            None => {
                                                // literal text is emitted byte by byte: the trace does not depend on how the
                                                // text is split over format strings
                                                for b in rest.as_bytes() {
                                                    stmts.push(parse_quote!(#recv.ch(#b);));
                                                }
                                                break;
                                            }
                                            Some(i) => {
                                                for b in rest[..i].as_bytes() {
                                                    stmts.push(parse_quote!(#recv.ch(#b);));
                                                }
                                                let close = match rest[i..].find('}') {
                                                    Some(c) => i + c,
                                                    None => {
                                                        ok = false;
                                                        break;
                                                    }
                                                };
                                                let inside = &rest[i + 1..close];
                                                let idx = if inside.is_empty() {
                                                    implicit += 1;
                                                    Some(implicit - 1)
                                                } else {
                                                    inside.parse::<usize>().ok()
                                                };
                                                match idx.and_then(|k| fa.args.get(k)) {
                                                    Some(a) => stmts.push(parse_quote!(#recv.disp(&(#a));)),
                                                    None => {
                                                        // named / captured argument such as {symbol}
                                                        if let Ok(id) = syn::parse_str::<syn::Ident>(inside) {
                                                            stmts.push(parse_quote!(#recv.disp(&(#id));));
                                                        } else {
                                                            ok = false;
                                                        }
                                                    }
                                                }
                                                rest = &rest[close + 1..];
                                            }
                                        }
                                    }
                                    if ok {
                                        *e = parse_quote!({ #(#stmts)* fmt_ok() });
                                        self.bump("R6_write_fmt_to_pieces");
                                    } else if self.err.is_none() {
                                        self.err = Some("format string outside rule R6".into());
                                    }
                                }
                                Err(_) => {
                                    if self.err.is_none() {
                                        self.err = Some("format_args outside rule R6".into());
                                    }
                                }
                            }
                        }
                    }
                }
            }
            if let Expr::Lit(l) = e {
                if let syn::Lit::Str(sl) = &l.lit {
                    let id = lit_id(&sl.value());
                    *e = parse_quote!(#id);
                    self.bump("R6_string_literal_to_id");
                }
            }
        }
        if self.float_unit {
            // float literal -> Fp::lit(Ghost(q)); <f64>::EPSILON -> Fp::epsilon()
            if let Expr::Lit(l) = e {
                if matches!(l.lit, syn::Lit::Float(_)) {
                    if let Some(r) = float_lit_to_real(e) {
                        let ts: proc_macro2::TokenStream = r.parse().unwrap();
                        *e = parse_quote!(Fp::lit(Ghost(#ts)));
                        self.bump("R3_float_literal");
                        return;
                    }
                }
            }
            if let Expr::Path(p) = e {
                if let Some(q) = &p.qself {
                    let tn = crate::db::type_last_ident(&q.ty).map(|x| x.0).unwrap_or_default();
                    if tn == "f64" && p.path.segments.len() == 1 {
                        let id = p.path.segments[0].ident.clone();
                        if id == "EPSILON" {
                            *e = parse_quote!(Fp::epsilon());
                        } else {
                            let nn = syn::Ident::new(&format!("std_{id}"), id.span());
                            *e = parse_quote!(Fp::#nn);
                        }
                        self.bump("R1_float_inherent");
                        return;
                    }
                }
            }
        }
        // R4: Option combinators with closures -> their definitional match
        if let Expr::MethodCall(m) = e {
            if m.args.len() == 1 {
                if let Expr::Closure(c) = &m.args[0] {
                    let strip_as_ref = |x: &Expr| -> Expr {
                        if let Expr::MethodCall(a) = x {
                            if a.method == "as_ref" && a.args.is_empty() {
                                let r = &a.receiver;
                                return parse_quote!((&#r));
                            }
                        }
                        x.clone()
                    };
                    let body = &c.body;
                    if m.method == "map" {
                        if let Expr::MethodCall(z) = &*m.receiver {
                            if z.method == "zip" && z.args.len() == 1 && c.inputs.len() == 1 {
                                if let syn::Pat::Tuple(tp) = &c.inputs[0] {
                                    if tp.elems.len() == 2 {
                                        let (a, b) = (strip_as_ref(&z.receiver), strip_as_ref(&z.args[0]));
                                        let (p1, p2) = (&tp.elems[0], &tp.elems[1]);
                                        *e = parse_quote!(match (#a, #b) { (Some(#p1), Some(#p2)) => Some(#body), _ => None });
                                        self.bump("R4_zip_map_to_match");
                                    }
                                }
                            }
                        }
                    }
                    if let Expr::MethodCall(m) = e {
                        if m.method == "map" && m.args.len() == 1 {
                            if let Expr::Closure(c) = &m.args[0] {
                                if c.inputs.len() == 1 {
                                    let a = strip_as_ref(&m.receiver);
                                    let p1 = &c.inputs[0];
                                    let body = &c.body;
                                    *e = parse_quote!(match #a { Some(#p1) => Some(#body), None => None });
                                    self.bump("R4_map_to_match");
                                }
                            }
                        } else if m.method == "unwrap_or_else" && m.args.len() == 1 {
                            if let Expr::Closure(c) = &m.args[0] {
                                if c.inputs.is_empty() {
                                    let a = &m.receiver;
                                    let body = &c.body;
                                    *e = parse_quote!(match #a { Some(v__) => v__, None => #body });
                                    self.bump("R4_unwrap_or_else_to_match");
                                }
                            }
                        }
                    }
                }
            }
        }
        // R5: m[i] = e  ->  m.set_lin(i, e)
        if let Expr::Assign(a) = e {
            if let Expr::Index(ix) = &*a.left {
                let (b, i, r) = (&ix.expr, &ix.index, &a.right);
                *e = parse_quote!(#b.set_lin(#i, #r));
                self.bump("R5_index_assign");
            }
        }
        // R1: tuple-struct constructor with a PhantomData argument
        if let Expr::Call(c) = e {
            let n = c.args.len();
            if n >= 1 {
                let last = quote::ToTokens::to_token_stream(&c.args[n - 1]).to_string();
                if last.ends_with("PhantomData") {
                    let kept: Vec<Expr> = c.args.iter().take(n - 1).cloned().collect();
                    c.args = kept.into_iter().collect();
                    self.bump("R1_drop_phantom");
                }
            }
        }
        // R2: by-value method calls inside nalgebra field-trait bodies resolve to the field-trait method
        if let Expr::MethodCall(m) = e {
            if let Some(nn) = self.field_methods.get(&m.method.to_string()).cloned() {
                let by_value_self = matches!(&*m.receiver, Expr::Path(p) if p.path.get_ident().map(|i| self.field_recv.contains(&i.to_string())).unwrap_or(false));
                if by_value_self {
                    m.method = syn::Ident::new(&nn, m.method.span());
                    self.bump("R2_field_method_resolution");
                }
            }
        }
        // children first
        visit_mut::visit_expr_mut(self, e);
        match e {
            Expr::Binary(b) => {
                let (tr, m, assign): (&str, &str, bool) = match b.op {
                    BinOp::Add(_) => ("Add", "add", false),
                    BinOp::Sub(_) => ("Sub", "sub", false),
                    BinOp::Mul(_) => ("Mul", "mul", false),
                    BinOp::Div(_) => ("Div", "div", false),
                    BinOp::AddAssign(_) => ("AddAssign", "add_assign", true),
                    BinOp::SubAssign(_) => ("SubAssign", "sub_assign", true),
                    BinOp::MulAssign(_) => ("MulAssign", "mul_assign", true),
                    BinOp::DivAssign(_) => ("DivAssign", "div_assign", true),
                    _ => return,
                };
                if self.is_int(&b.left) && self.is_int(&b.right) {
                    return;
                }
                let tr_id = syn::Ident::new(tr, proc_macro2::Span::call_site());
                let m_id = syn::Ident::new(m, proc_macro2::Span::call_site());
                let l = &b.left;
                let r = &b.right;
                if assign {
                    *e = parse_quote!(core::ops::#tr_id::#m_id(&mut #l, #r));
                    self.bump("R9_compound_assign_to_ufcs");
                } else {
                    *e = parse_quote!(core::ops::#tr_id::#m_id(#l, #r));
                    self.bump("R9_binop_to_ufcs");
                }
            }
            Expr::Unary(u) => {
                if matches!(u.op, UnOp::Neg(_)) && !self.is_int(&u.expr) {
                    let x = &u.expr;
                    *e = parse_quote!(core::ops::Neg::neg(#x));
                    self.bump("R9_neg_to_ufcs");
                }
            }
            Expr::MethodCall(m) if m.method == "neg" && m.args.is_empty() && m.turbofish.is_none() && !self.is_int(&m.receiver) => {
                // `x.neg()` is `Neg::neg(x)` (the only `neg` in scope in the crate is core::ops::Neg)
                let x = (*m.receiver).clone();
                *e = parse_quote!(core::ops::Neg::neg(#x));
                self.bump("R9_neg_method_to_ufcs");
            }
            Expr::MethodCall(m) if m.args.len() == 1 && m.turbofish.is_none() && ["add", "sub", "mul", "div"].contains(&m.method.to_string().as_str()) && !self.is_int(&m.receiver) => {
                let (tr, mm) = match m.method.to_string().as_str() {
                    "add" => ("Add", "add"),
                    "sub" => ("Sub", "sub"),
                    "mul" => ("Mul", "mul"),
                    _ => ("Div", "div"),
                };
                let tr_id = syn::Ident::new(tr, proc_macro2::Span::call_site());
                let m_id = syn::Ident::new(mm, proc_macro2::Span::call_site());
                let x = (*m.receiver).clone();
                let y = m.args[0].clone();
                *e = parse_quote!(core::ops::#tr_id::#m_id(#x, #y));
                self.bump("R9_op_method_to_ufcs");
            }
            Expr::Closure(_) => {
                if self.err.is_none() {
                    self.err = Some("closure".into());
                }
            }
            _ => {}
        }
    }

    fn visit_local_mut(&mut self, l: &mut syn::Local) {
        if self.display_unit {
            if let syn::Pat::Type(pt) = &l.pat {
                if ["Vec<_>", "Vec<String>"].contains(&pt.ty.to_token_stream().to_string().replace(' ', "").as_str()) {
                    // R11: the collected strings are the model type Strs
                    l.pat = (*pt.pat).clone();
                    self.bump("R11_drop_vec_annotation");
                }
            }
        }
        // an immutable `let n = <integer expression>;` makes `n` an integer name for R3_from_i32
        if let (syn::Pat::Ident(pi), Some(init)) = (&l.pat, &l.init) {
            if pi.mutability.is_none() && pi.by_ref.is_none() && self.is_int(&init.expr) {
                self.ints.insert(pi.ident.to_string());
            }
        }
        visit_mut::visit_local_mut(self, l);
    }

    fn visit_expr_path_mut(&mut self, p: &mut syn::ExprPath) {
        // <T as FloatConst>::PI  ->  Sc::PI
        if let Some(q) = &p.qself {
            let tn = crate::db::type_last_ident(&q.ty).map(|x| x.0).unwrap_or_default();
            if (tn == "T" || tn == "F") && p.path.segments.len() == 2 && p.path.segments[0].ident == "FloatConst" {
                let c = p.path.segments[1].ident.clone();
                let t = syn::Ident::new(if tn == "T" { "Sc" } else { "Fl" }, c.span());
                *p = parse_quote!(#t::#c);
                self.bump("R1_qualified_const");
                return;
            }
        }
        if let Some(q) = &mut p.qself {
            self.visit_type_mut(&mut q.ty);
        }
        if self.rename_self && p.path.is_ident("self") {
            p.path = parse_quote!(self_);
            self.bump("R8_mut_self");
            return;
        }
        // trait-qualified calls of inherent-converted traits: DualNum::recip(&self) -> Self::recip(&self)
        if p.path.segments.len() == 2 {
            let first = p.path.segments[0].ident.to_string();
            if ["DualNum", "Signed", "Zero", "One", "Inv"].contains(&first.as_str()) {
                p.path.segments[0].ident = syn::Ident::new("Self", p.path.segments[0].ident.span());
                p.path.segments[0].arguments = syn::PathArguments::None;
                self.bump("R2_trait_path_to_Self");
                return;
            }
            // `Neg::neg(x)`, `Mul::mul(a, b)`, ...: the operator traits are named by their full path in the generated file
            if p.qself.is_none() && ["Neg", "Add", "Sub", "Mul", "Div", "AddAssign", "SubAssign", "MulAssign", "DivAssign"].contains(&first.as_str()) {
                let tr = p.path.segments[0].ident.clone();
                let m = p.path.segments[1].ident.clone();
                p.path = parse_quote!(core::ops::#tr::#m);
                self.bump("R9_operator_trait_path");
                return;
            }
        }
        strip_known_generics(&mut p.path, self);
    }

    fn visit_pat_struct_mut(&mut self, ps: &mut syn::PatStruct) {
        // the type path of a struct pattern gets the same treatment as a type path (R1: generics, nested outer type)
        strip_known_generics(&mut ps.path, self);
        visit_mut::visit_pat_struct_mut(self, ps);
    }

    fn visit_pat_tuple_struct_mut(&mut self, ps: &mut syn::PatTupleStruct) {
        if !(ps.path.is_ident("Some") || ps.path.is_ident("Ok") || ps.path.is_ident("Err")) {
            strip_known_generics(&mut ps.path, self);
        }
        visit_mut::visit_pat_tuple_struct_mut(self, ps);
    }

    fn visit_expr_struct_mut(&mut self, s: &mut syn::ExprStruct) {
        // R1: drop PhantomData fields
        let before = s.fields.len();
        let kept: Vec<syn::FieldValue> = s
            .fields
            .iter()
            .filter(|f| {
                let txt = quote::ToTokens::to_token_stream(&f.expr).to_string();
                !(txt.ends_with("PhantomData") || (txt.contains("clone") && matches!(&f.member, syn::Member::Named(i) if i == "f")))
            })
            .cloned()
            .collect();
        if kept.len() != before {
            s.fields = kept.into_iter().collect();
            self.bump("R1_drop_phantom");
        }
        strip_known_generics(&mut s.path, self);
        for f in s.fields.iter_mut() {
            self.visit_expr_mut(&mut f.expr);
        }
        if let Some(r) = &mut s.rest {
            self.visit_expr_mut(r);
        }
    }
}
