//! Database of the dual-number types and their functions found in the expanded source.
use std::collections::BTreeMap;
use syn::{spanned::Spanned, FnArg, ImplItem, Item, ItemImpl, Type};

pub const STD_OPS: &[&str] = &[
    "Add", "Sub", "Mul", "Div", "Neg", "AddAssign", "SubAssign", "MulAssign", "DivAssign",
];
/// crate / num-traits traits whose impls are emitted as inherent impls (rule R2)
pub const INHERENT_TRAITS: &[&str] = &["DualNum", "Signed", "Zero", "One", "Inv", "From", "FloatConst", "FromPrimitive"];

#[derive(Clone, Debug, PartialEq, Eq, PartialOrd, Ord)]
pub enum PartKind {
    Sc,
    /// nested instantiation: the part is itself a dual number of the named (already extracted) type
    Inner(String),
    /// Derivative<T,F,R,C>: textual dims
    Deriv(String, String),
}

#[derive(Clone, Debug)]
pub struct TypeInfo {
    pub name: String,
    pub parts: Vec<(String, PartKind)>,
    pub generics: Vec<String>,
    pub line: usize,
}

#[derive(Clone, Debug, PartialEq, Eq, Hash, PartialOrd, Ord)]
pub enum Rhs {
    None,
    SelfOwn,
    SelfRef,
    Sc,
    Fl,
    Other(String),
}

#[derive(Clone)]
pub struct Func {
    pub ty: String,
    pub trait_: Option<String>,
    pub rhs: Rhs,
    pub self_ref: bool,
    pub name: String,
    pub item: syn::ImplItemFn,
    pub line: usize,
    pub end_line: usize,
    /// mirror base name, unique
    pub mname: String,
    /// generic parameter names of the impl (for R1)
    pub impl_generics: Vec<String>,
    /// from a trait default body (instantiated per type)
    pub from_default: bool,
    /// name prefix of the emitted inherent function ("cf_" for ComplexField, "rf_" for RealField; R2)
    pub prefix: String,
}

impl Func {
    pub fn id(&self) -> String {
        let t = match &self.trait_ {
            Some(t) => format!(
                "{}{}",
                t,
                match &self.rhs {
                    Rhs::None => "".to_string(),
                    Rhs::SelfOwn => "<Self>".into(),
                    Rhs::SelfRef => "<&Self>".into(),
                    Rhs::Sc => "<T>".into(),
                    Rhs::Fl => "<F>".into(),
                    Rhs::Other(o) => format!("<{o}>"),
                }
            ),
            None => "inherent".into(),
        };
        format!("{}{}::{}::{}", if self.self_ref { "&" } else { "" }, self.ty, t, self.name)
    }
    pub fn is_std_op(&self) -> bool {
        self.trait_.as_deref().map(|t| STD_OPS.contains(&t)).unwrap_or(false)
    }
}

#[derive(Clone)]
pub struct Db {
    /// nested units: name -> (outer generic type, inner type substituted for T)
    pub nested: BTreeMap<String, (String, String)>,
    pub types: BTreeMap<String, TypeInfo>,
    pub funcs: Vec<Func>,
    /// default method bodies of trait DualNum
    pub dualnum_defaults: Vec<syn::TraitItemFn>,
    pub skipped: Vec<(String, String)>,
}

pub const TYPE_NAMES: &[&str] = &[
    "Dual", "Dual2", "Dual3", "HyperDual", "HyperHyperDual", "DualVec", "Dual2Vec", "HyperDualVec", "Derivative", "F64",
];

pub fn type_last_ident(t: &Type) -> Option<(String, bool)> {
    match t {
        Type::Reference(r) => type_last_ident(&r.elem).map(|(n, _)| (n, true)),
        Type::Path(p) => p.path.segments.last().map(|s| (s.ident.to_string(), false)),
        Type::Paren(p) => type_last_ident(&p.elem),
        _ => None,
    }
}

fn first_generic_arg(seg: &syn::PathSegment) -> Option<Type> {
    if let syn::PathArguments::AngleBracketed(a) = &seg.arguments {
        for g in &a.args {
            if let syn::GenericArgument::Type(t) = g {
                return Some(t.clone());
            }
        }
    }
    None
}

impl Db {
    pub fn build(file: &syn::File) -> Db {
        let mut db = Db { nested: BTreeMap::new(), types: BTreeMap::new(), funcs: vec![], dualnum_defaults: vec![], skipped: vec![] };
        db.walk(&file.items);
        // instantiate trait default methods (mul_add, powd) for every type that implements DualNum
        let tys: Vec<String> = db
            .funcs
            .iter()
            .filter(|f| f.trait_.as_deref() == Some("DualNum") && f.name == "recip")
            .map(|f| f.ty.clone())
            .collect();
        for ty in tys {
            for d in db.dualnum_defaults.clone() {
                let name = d.sig.ident.to_string();
                if db.funcs.iter().any(|f| f.ty == ty && f.trait_.as_deref() == Some("DualNum") && f.name == name) {
                    continue;
                }
                let item = syn::ImplItemFn {
                    attrs: vec![],
                    vis: syn::Visibility::Inherited,
                    defaultness: None,
                    sig: d.sig.clone(),
                    block: d.default.clone().unwrap(),
                };
                let line = d.span().start().line;
                let end_line = d.span().end().line;
                let gens = db.funcs.iter().find(|f| f.ty == ty && f.trait_.as_deref() == Some("DualNum")).unwrap().impl_generics.clone();
                db.funcs.push(Func {
                    ty: ty.clone(),
                    trait_: Some("DualNum".into()),
                    rhs: Rhs::None,
                    self_ref: false,
                    name: name.clone(),
                    item,
                    line,
                    end_line,
                    mname: format!("m_{ty}_{name}"),
                    impl_generics: gens,
                    from_default: true,
                    prefix: String::new(),
                });
            }
        }
        db
    }

    fn walk(&mut self, items: &[Item]) {
        for it in items {
            match it {
                Item::Mod(m) => {
                    if let Some((_, items)) = &m.content {
                        self.walk(items);
                    }
                }
                Item::Struct(s) => {
                    let name = s.ident.to_string();
                    if TYPE_NAMES.contains(&name.as_str()) {
                        let mut parts = vec![];
                        match &s.fields {
                            syn::Fields::Named(n) => {
                                for f in &n.named {
                                    let fname = f.ident.as_ref().unwrap().to_string();
                                    if let Some((tn, _)) = type_last_ident(&f.ty) {
                                        if tn == "T" {
                                            parts.push((fname, PartKind::Sc));
                                        } else if tn == "Derivative" {
                                            let (r, c) = deriv_dims(&f.ty);
                                            parts.push((fname, PartKind::Deriv(r, c)));
                                        }
                                    }
                                }
                            }
                            syn::Fields::Unnamed(_) => {}
                            _ => {}
                        }
                        let generics = s.generics.params.iter().filter_map(|p| match p {
                            syn::GenericParam::Type(t) => Some(t.ident.to_string()),
                            _ => None,
                        }).collect();
                        self.types.insert(name.clone(), TypeInfo { name, parts, generics, line: s.span().start().line });
                    }
                }
                Item::Trait(t) if t.ident == "DualNum" => {
                    for ti in &t.items {
                        if let syn::TraitItem::Fn(f) = ti {
                            if f.default.is_some() {
                                self.dualnum_defaults.push(f.clone());
                            }
                        }
                    }
                }
                Item::Impl(im) => self.add_impl(im),
                _ => {}
            }
        }
    }

    fn add_impl(&mut self, im: &ItemImpl) {
        let Some((mut ty, self_ref)) = type_last_ident(&im.self_ty) else { return };
        // the plain-float instance of the generic interface (f32 is the same macro text)
        if ty == "f64" && im.trait_.as_ref().map(|t| t.1.segments.last().unwrap().ident == "DualNum").unwrap_or(false) {
            ty = "F64".to_string();
            self.types.entry("F64".into()).or_insert(TypeInfo { name: "F64".into(), parts: vec![], generics: vec![], line: im.span().start().line });
        }
        if !TYPE_NAMES.contains(&ty.as_str()) {
            return;
        }
        let (trait_, rhs) = match &im.trait_ {
            None => (None, Rhs::None),
            Some((_, path, _)) => {
                let seg = path.segments.last().unwrap();
                let tn = seg.ident.to_string();
                let rhs = match first_generic_arg(seg) {
                    None => {
                        // binary op without explicit Rhs: Rhs = Self
                        if ["Add", "Sub", "Mul", "Div", "AddAssign", "SubAssign", "MulAssign", "DivAssign"].contains(&tn.as_str()) {
                            // default Rhs = Self (a reference when the impl is for a reference type)
                            if self_ref { Rhs::SelfRef } else { Rhs::SelfOwn }
                        } else {
                            Rhs::None
                        }
                    }
                    Some(t) => match type_last_ident(&t) {
                        Some((n, r)) if n == ty => {
                            if r { Rhs::SelfRef } else { Rhs::SelfOwn }
                        }
                        Some((n, _)) if n == "T" => Rhs::Sc,
                        Some((n, _)) if n == "F" => Rhs::Fl,
                        Some((n, r)) => Rhs::Other(format!("{}{}", if r { "&" } else { "" }, n)),
                        None => Rhs::Other("?".into()),
                    },
                };
                (Some(tn), rhs)
            }
        };
        let impl_generics: Vec<String> = im.generics.params.iter().filter_map(|p| match p {
            syn::GenericParam::Type(t) => Some(t.ident.to_string()),
            syn::GenericParam::Const(c) => Some(c.ident.to_string()),
            _ => None,
        }).collect();
        for ii in &im.items {
            if let ImplItem::Fn(f) = ii {
                let name = f.sig.ident.to_string();
                let suffix = match &trait_ {
                    Some(t) if STD_OPS.contains(&t.as_str()) => {
                        let s = if self_ref { "r" } else { "o" };
                        let r = match &rhs {
                            Rhs::None => "".to_string(),
                            Rhs::SelfOwn => "o".into(),
                            Rhs::SelfRef => "r".into(),
                            Rhs::Sc => "s".into(),
                            Rhs::Fl => "f".into(),
                            Rhs::Other(o) => format!("x{}", o.replace('&', "r")),
                        };
                        format!("_{s}{r}")
                    }
                    Some(t) if INHERENT_TRAITS.contains(&t.as_str()) || t == "Clone" => "".into(),
                    Some(t) if t == "ComplexField" || t == "RealField" || t == "PartialEq" || t == "PartialOrd" || t == "Display" => "".into(),
                    Some(t) => format!("_{}", t),
                    None => "".into(),
                };
                let prefix = match trait_.as_deref() {
                    Some("ComplexField") => "cf_",
                    Some("RealField") => "rf_",
                    Some("Display") => "dp_",
                    Some("PartialEq") => "pe_",
                    Some("PartialOrd") => "po_",
                    _ => "",
                }
                .to_string();
                self.funcs.push(Func {
                    ty: ty.clone(),
                    trait_: trait_.clone(),
                    rhs: rhs.clone(),
                    self_ref,
                    name: name.clone(),
                    item: f.clone(),
                    line: f.span().start().line,
                    end_line: f.span().end().line,
                    mname: format!("m_{ty}_{prefix}{name}{suffix}"),
                    impl_generics: impl_generics.clone(),
                    from_default: false,
                    prefix,
                });
            }
        }
    }

    /// monomorphised nesting `outer<inner, F>`: a new type `outer__inner` whose scalar parts are `inner` values (rule R1)
    pub fn with_nested(&self, outer: &str, inner: &str) -> (Db, String) {
        let name = format!("{outer}__{inner}");
        let mut db = self.clone();
        let oti = &self.types[outer];
        let parts = oti.parts.iter().map(|(p, k)| (p.clone(), if *k == PartKind::Sc { PartKind::Inner(inner.to_string()) } else { k.clone() })).collect();
        db.types.insert(name.clone(), TypeInfo { name: name.clone(), parts, generics: oti.generics.clone(), line: oti.line });
        let cloned: Vec<Func> = self
            .funcs
            .iter()
            .filter(|f| f.ty == outer)
            .map(|f| {
                let mut g = f.clone();
                g.ty = name.clone();
                g.mname = format!("m_{name}_{}", &f.mname[format!("m_{outer}_").len()..]);
                g
            })
            .collect();
        db.funcs.extend(cloned);
        db.nested.insert(name.clone(), (outer.to_string(), inner.to_string()));
        (db, name)
    }

    pub fn find_method(&self, ty: &str, name: &str) -> Option<&Func> {
        // inherent first, then inherent-converted traits
        self.funcs
            .iter()
            .find(|f| f.ty == ty && f.trait_.is_none() && f.name == name && !f.self_ref)
            .or_else(|| {
                self.funcs.iter().find(|f| {
                    f.ty == ty && f.name == name && !f.self_ref && f.trait_.as_deref().map(|t| INHERENT_TRAITS.contains(&t)).unwrap_or(false)
                })
            })
    }

    /// nalgebra field-trait method (by-value receiver: found before the auto-ref'd DualNum / Signed methods)
    pub fn find_field_method(&self, ty: &str, name: &str) -> Option<&Func> {
        self.funcs.iter().find(|f| f.ty == ty && f.name == name && (f.prefix == "cf_" || f.prefix == "rf_"))
    }

    pub fn find_op(&self, ty: &str, tr: &str, self_ref: bool, rhs: &Rhs) -> Option<&Func> {
        self.funcs.iter().find(|f| f.ty == ty && f.trait_.as_deref() == Some(tr) && f.self_ref == self_ref && &f.rhs == rhs)
    }
}

fn deriv_dims(t: &Type) -> (String, String) {
    if let Type::Path(p) = t {
        if let Some(seg) = p.path.segments.last() {
            if let syn::PathArguments::AngleBracketed(a) = &seg.arguments {
                let v: Vec<String> = a.args.iter().map(|g| quote::ToTokens::to_token_stream(g).to_string()).collect();
                if v.len() >= 4 {
                    return (v[2].clone(), v[3].clone());
                }
            }
        }
    }
    ("?".into(), "?".into())
}
