//! extract: mechanical extraction of num-dual functions from the compiler's
//! macro-expanded source into a Verus unit (verbatim bodies + contract headers)
//! plus generated per-part mirror spec functions.  See /verif/DESIGN.md §2.
mod db;
mod emit;
mod eval;
mod rewrite;
mod py;

use std::collections::BTreeMap;

fn main() {
    let args: Vec<String> = std::env::args().collect();
    if args.len() < 4 {
        eprintln!("usage: extract <expanded.rs> <contracts.json> <outdir> [unit...]");
        std::process::exit(2);
    }
    let src = std::fs::read_to_string(&args[1]).expect("read expanded");
    let file = match syn::parse_file(&src) {
        Ok(f) => f,
        Err(e) => {
            eprintln!("UNDECIDED: cannot parse expanded source: {e}");
            std::process::exit(2);
        }
    };
    let contracts: serde_json::Value =
        serde_json::from_str(&std::fs::read_to_string(&args[2]).expect("read contracts")).expect("contracts json");
    let outdir = &args[3];
    std::fs::create_dir_all(outdir).unwrap();
    if args.len() > 4 && args[4] == "Py" {
        let only: Option<Vec<String>> = if args.len() > 5 { Some(args[5..].to_vec()) } else { None };
        let res = py::emit_py(&file, &contracts, only.as_ref());
        std::fs::write(format!("{outdir}/Py.exec.rs"), &res.exec).unwrap();
        std::fs::write(format!("{outdir}/Py.mirror.rs"), "").unwrap();
        std::fs::write(format!("{outdir}/Py.iface.rs"), "").unwrap();
        std::fs::write(format!("{outdir}/Py.meta.json"), serde_json::to_string_pretty(&res.meta).unwrap()).unwrap();
        println!("{{\"Py\":{}}}", res.meta["functions"].as_array().map(|a| a.len()).unwrap_or(0));
        return;
    }
    let db = db::Db::build(&file);
    let units: Vec<String> = if args.len() > 4 {
        args[4..].to_vec()
    } else {
        db.types.keys().cloned().collect()
    };
    let mut summary = BTreeMap::new();
    for u in units {
        // nested unit  Outer__Inner[__Inner2]: monomorphised instantiation Outer<Inner<..>, F>
        let res = if let Some((outer, inner)) = u.split_once("__") {
            let mut cur = db.clone();
            // innermost first
            let levels: Vec<&str> = inner.split("__").collect();
            let mut inner_name = levels[levels.len() - 1].to_string();
            for lv in levels[..levels.len() - 1].iter().rev() {
                let (d2, n2) = cur.with_nested(lv, &inner_name);
                cur = d2;
                inner_name = n2;
            }
            let (d2, n2) = cur.with_nested(outer, &inner_name);
            assert_eq!(n2, u);
            emit::emit_unit(&d2, &contracts, &u)
        } else {
            emit::emit_unit(&db, &contracts, &u)
        };
        std::fs::write(format!("{outdir}/{u}.exec.rs"), &res.exec).unwrap();
        std::fs::write(format!("{outdir}/{u}.mirror.rs"), &res.mirror).unwrap();
        std::fs::write(format!("{outdir}/{u}.iface.rs"), &res.iface).unwrap();
        std::fs::write(format!("{outdir}/{u}.meta.json"), serde_json::to_string_pretty(&res.meta).unwrap()).unwrap();
        summary.insert(u, res.meta["functions"].as_array().map(|a| a.len()).unwrap_or(0));
    }
    println!("{}", serde_json::to_string(&summary).unwrap());
}
