//! Emission of the Verus exec unit and of the mirror spec functions for one type.
use crate::db::{Db, Func, PartKind, Rhs, INHERENT_TRAITS, STD_OPS};
use crate::eval::{self, is_vec_type, vec_leaves, vec_outs, Ix, Kind, Mirror, ParamSpec};
use crate::rewrite::Rw;
use quote::ToTokens;
use serde_json::json;
use std::collections::{BTreeMap, HashMap, HashSet};
use syn::visit_mut::VisitMut;
use syn::FnArg;

pub struct UnitOut {
    pub exec: String,
    /// same items with `external_body` stubs instead of bodies (used by the units that call into this one)
    pub iface: String,
    pub mirror: String,
    pub meta: serde_json::Value,
}

pub const RES: &str = "ret_";

fn allowed(f: &Func, contracts: &serde_json::Value) -> Result<(), String> {
    if let Some(sk) = contracts["skip_ids"].as_array() {
        if sk.iter().any(|s| s.as_str() == Some(f.id().as_str())) {
            return Err("skip list".into());
        }
    }
    if let Some(sk) = contracts["skip_methods"].as_array() {
        if sk.iter().any(|s| s.as_str() == Some(f.name.as_str())) {
            return Err("skip list".into());
        }
    }
    match f.trait_.as_deref() {
        None => Ok(()),
        Some(t) if STD_OPS.contains(&t) || INHERENT_TRAITS.contains(&t) || t == "Clone" || t == "ComplexField" || t == "RealField" || t == "PartialEq" || t == "PartialOrd" || t == "Display" => Ok(()),
        Some(t) => Err(format!("trait {t} not in this unit")),
    }
}

fn snake(tr: &str) -> String {
    let mut s = String::new();
    for (i, c) in tr.chars().enumerate() {
        if c.is_uppercase() {
            if i > 0 {
                s.push('_');
            }
            s.push(c.to_ascii_lowercase());
        } else {
            s.push(c);
        }
    }
    s
}

fn kind_to_type(k: &Kind) -> String {
    match k {
        Kind::Sc => "Sc".into(),
        Kind::Fl => "Fl".into(),
        Kind::Int(t) => t.clone(),
        Kind::Bool => "bool".into(),
        Kind::Struct(t) => t.clone(),
        Kind::Unit => "()".into(),
        Kind::Tuple(v) => format!("({})", v.iter().map(kind_to_type).collect::<Vec<_>>().join(", ")),
        Kind::Opt(k) => format!("Option<{}>", kind_to_type(k)),
    }
}

#[derive(Clone, Copy, PartialEq)]
enum VMode {
    Full,
    Only(Ix),
    ReOnly,
}

fn orient(db: &Db, ty: &str, part: &str) -> (bool, bool) {
    for (p, k) in &db.types[ty].parts {
        if p == part {
            if let PartKind::Deriv(r, c) = k {
                return (r == "U1", c == "U1");
            }
        }
    }
    (false, false)
}

fn dense_at(db: &Db, ty: &str, root: &str, part: &str, idx: &[Ix], var1: &str) -> String {
    let (row_unit, _) = orient(db, ty, part);
    match idx {
        [_] => {
            if row_unit {
                format!("{root}.{part}.dense(0, {var1})")
            } else {
                format!("{root}.{part}.dense({var1}, 0)")
            }
        }
        _ => format!("{root}.{part}.dense(i, j)"),
    }
}

/// spec-level views of a value of kind `k` rooted at expression `root`, in canonical flat order
fn views(db: &Db, k: &Kind, root: &str, mode: VMode, out: &mut Vec<String>) {
    match k {
        Kind::Sc | Kind::Fl => out.push(format!("{root}@")),
        Kind::Int(_) => out.push(format!("({root} as int)")),
        Kind::Bool => out.push(root.to_string()),
        Kind::Unit => {}
        Kind::Struct(t) => {
            for (_, part, idx) in vec_leaves(db, t) {
                if idx.is_empty() {
                    out.push(format!("{root}.{part}@"));
                    continue;
                }
                let e = match (mode, idx.as_slice()) {
                    (VMode::Full, [Ix::I]) => dense_at(db, t, root, &part, &idx, "i"),
                    (VMode::Full, [Ix::J]) => dense_at(db, t, root, &part, &idx, "j"),
                    (VMode::Full, [_, _]) => dense_at(db, t, root, &part, &idx, ""),
                    (VMode::Only(nat), [y]) if *y == nat => dense_at(db, t, root, &part, &idx, "k"),
                    _ => "0real".to_string(),
                };
                out.push(e);
            }
        }
        Kind::Tuple(v) => {
            for (i, k) in v.iter().enumerate() {
                views(db, k, &format!("{root}.{i}"), mode, out);
            }
        }
        Kind::Opt(_) => {}
    }
}

fn all_views(db: &Db, ps: &[ParamSpec], mode: VMode) -> String {
    let mut v = vec![];
    for p in ps {
        let root = if p.is_mut && p.name == "self" { "old(self)".to_string() } else { p.name.clone() };
        views(db, &p.kind, &root, mode, &mut v);
    }
    v.join(", ")
}

/// ensures clauses tying the result (rooted at `root`) to the mirror functions
fn ensures_for(db: &Db, mname: &str, k: &Kind, root: &str, prefix: &str, ps: &[ParamSpec], out: &mut Vec<String>) {
    let key = |s: &str| if prefix.is_empty() { s.to_string() } else if s.is_empty() { prefix.to_string() } else { format!("{prefix}_{s}") };
    let scalar = |acc: String, part: String| format!("{acc} == {mname}_{part}({})", all_views(db, ps, VMode::ReOnly));
    match k {
        Kind::Sc | Kind::Fl => out.push(scalar(format!("{root}@"), key(if prefix.is_empty() { "ret" } else { "" }))),
        Kind::Int(_) => out.push(scalar(format!("({root} as int)"), key(if prefix.is_empty() { "ret" } else { "" }))),
        Kind::Bool => out.push(scalar(root.to_string(), key(if prefix.is_empty() { "ret" } else { "" }))),
        Kind::Unit => {}
        Kind::Struct(t) => {
            for (oname, part, idx) in vec_outs(db, t) {
                match idx.as_slice() {
                    [] => out.push(scalar(format!("{root}.{part}@"), key(&oname))),
                    [x] => {
                        let acc = dense_at(db, t, root, &part, &idx, "k");
                        out.push(format!(
                            "forall|k: int| #![trigger {acc}] {acc} == {mname}_{}({})",
                            key(&oname),
                            all_views(db, ps, VMode::Only(*x))
                        ));
                    }
                    _ => {
                        let acc = dense_at(db, t, root, &part, &idx, "");
                        out.push(format!(
                            "forall|i: int, j: int| #![trigger {acc}] {acc} == {mname}_{}({})",
                            key(&oname),
                            all_views(db, ps, VMode::Full)
                        ));
                    }
                }
            }
            if is_vec_type(db, t) {
                out.push(format!("{root}.wf()"));
            }
        }
        Kind::Tuple(v) => {
            for (i, k) in v.iter().enumerate() {
                ensures_for(db, mname, k, &format!("{root}.{i}"), &key(&i.to_string()), ps, out);
            }
        }
        Kind::Opt(_) => {}
    }
}

fn table_requires(contracts: &serde_json::Value, f: &Func, second_kind: &str, mutself: bool, p1: &str) -> Vec<String> {
    let mut v = vec![];
    let key = if f.ty == "F64" { format!("F64::{}", f.name) } else { format!("{}{}", f.prefix, f.name) };
    let entry = &contracts["requires"][key.as_str()];
    if entry.is_null() {
        return v;
    }
    let list = if entry.is_object() { &entry[second_kind] } else { entry };
    let s0 = if mutself { "old(self)".to_string() } else { "self".to_string() };
    if let Some(a) = list.as_array() {
        for r in a {
            if let Some(s) = r.as_str() {
                v.push(s.replace("{0}", &s0).replace("{1}", p1));
            }
        }
    }
    v
}

fn emit_mirror(f: &Func, m: &Mirror) -> String {
    let mut s = String::new();
    let params = m.params.iter().map(|(n, t)| format!("{n}: {t}")).collect::<Vec<_>>().join(", ");
    let index: HashMap<&str, usize> = m.lets.iter().enumerate().map(|(i, (n, _, _))| (n.as_str(), i)).collect();
    for (part, e, sort) in &m.outs {
        // dead-let elimination: keep only the bindings this part depends on
        let mut needed = vec![false; m.lets.len()];
        let mut stack: Vec<usize> = let_refs(e).iter().filter_map(|n| index.get(n.as_str()).copied()).collect();
        while let Some(i) = stack.pop() {
            if needed[i] {
                continue;
            }
            needed[i] = true;
            for n in let_refs(&m.lets[i].1) {
                if let Some(&j) = index.get(n.as_str()) {
                    if !needed[j] {
                        stack.push(j);
                    }
                }
            }
        }
        s.push_str(&format!("#[verifier::inline] pub open spec fn {}_{}({}) -> {} {{ ", f.mname, part, params, sort));
        // let-bound names are made unique per (function, part): Verus' inliner requires distinct binders
        let uniq = |x: &str| rename_lets(x, &format!("{}_{}", f.mname, part));
        for (i, (n, e, _)) in m.lets.iter().enumerate() {
            if needed[i] {
                s.push_str(&format!("let {} = {}; ", uniq(n), uniq(e)));
            }
        }
        s.push_str(&uniq(e));
        s.push_str(" }\n");
    }
    s
}

fn scan_lets(e: &str, mut on: impl FnMut(usize, usize)) {
    let b = e.as_bytes();
    let mut i = 0;
    while i < b.len() {
        let prev_ok = i == 0 || !(b[i - 1].is_ascii_alphanumeric() || b[i - 1] == b'_');
        if prev_ok && b[i] == b't' && i + 2 < b.len() && b[i + 1] == b'_' && b[i + 2].is_ascii_digit() {
            let mut j = i + 2;
            while j < b.len() && b[j].is_ascii_digit() {
                j += 1;
            }
            let next_ok = j == b.len() || !(b[j].is_ascii_alphanumeric() || b[j] == b'_');
            if next_ok {
                on(i, j);
                i = j;
                continue;
            }
        }
        i += 1;
    }
}

/// names of the form t_<digits> occurring in an expression
fn let_refs(e: &str) -> Vec<String> {
    let mut out = vec![];
    scan_lets(e, |i, j| out.push(e[i..j].to_string()));
    out
}

fn rename_lets(e: &str, suffix: &str) -> String {
    let mut spans = vec![];
    scan_lets(e, |i, j| spans.push((i, j)));
    let mut out = String::with_capacity(e.len() + 16 * spans.len());
    let mut last = 0;
    for (_i, j) in spans {
        out.push_str(&e[last..j]);
        out.push('_');
        out.push_str(suffix);
        last = j;
    }
    out.push_str(&e[last..]);
    out
}

fn type_to_string(t: &syn::Type, rw: &mut Rw) -> String {
    let mut t = t.clone();
    rw.visit_type_mut(&mut t);
    t.to_token_stream().to_string()
}

fn dim_expr(d: &str) -> String {
    if d == "U1" {
        "1".to_string()
    } else {
        format!("dim_{d}()")
    }
}

pub fn emit_unit(db: &Db, contracts: &serde_json::Value, unit: &str) -> UnitOut {
    let ti = &db.types[unit];
    let mut exec = String::new();
    let mut iface = String::new();
    let mut mirror = String::new();
    let mut meta_fns = vec![];
    let mut skipped = vec![];
    let mut rule_counts: BTreeMap<String, usize> = BTreeMap::new();
    let vec_unit = is_vec_type(db, unit) && unit != "Derivative";
    let float_unit = unit == "F64";

    // struct definition (R1: PhantomData field and generics dropped)
    exec.push_str(&format!("// ---- unit {unit}: extracted from expanded source line {} ----\n", ti.line));
    if unit == "Derivative" {
        exec.push_str("pub struct Derivative(pub Option<Mx>);\n");
    } else if float_unit {
        exec.push_str("// the model float type Fp is part of the prelude\n");
    } else {
        let fields = ti
            .parts
            .iter()
            .map(|(n, k)| match k {
                PartKind::Sc => format!("pub {n}: Sc"),
                PartKind::Inner(i) => format!("pub {n}: {i}"),
                PartKind::Deriv(..) => format!("pub {n}: Derivative"),
            })
            .collect::<Vec<_>>()
            .join(", ");
        let mut def = format!("pub struct {unit} {{ {fields} }}");
        if vec_unit {
            let wf = ti
                .parts
                .iter()
                .filter_map(|(n, k)| match k {
                    PartKind::Deriv(r, c) => Some(format!("self.{n}.fits({}, {})", dim_expr(r), dim_expr(c))),
                    _ => None,
                })
                .collect::<Vec<_>>()
                .join(" && ");
            def.push_str(&format!(" impl {unit} {{ pub open spec fn wf(&self) -> bool {{ {wf} }} }}"));
        }
        if !vec_unit {
            // the scalar types derive Copy (for Copy scalars); the model scalar is Copy as f32/f64 are
            def.push_str(&format!(" impl Copy for {unit} {{}}"));
        }
        exec.push_str(&def);
        exec.push('\n');
    }
    iface.push_str(&exec);

    // candidate functions
    let cands: Vec<&Func> = db.funcs.iter().filter(|f| f.ty == unit).collect();
    let mut todo: Vec<&Func> = vec![];
    for f in cands {
        if db.nested.contains_key(unit) && !f.prefix.is_empty() {
            skipped.push(json!({"id": f.id(), "line": f.line, "reason": "field / comparison traits are not part of the nested units"}));
            continue;
        }
        match allowed(f, contracts) {
            Ok(()) => todo.push(f),
            Err(why) => skipped.push(json!({"id": f.id(), "line": f.line, "reason": why})),
        }
    }
    let is_manual = |f: &Func| contracts["manual"][f.id().as_str()].is_object();
    // the constructor of a vector type has a field-wise contract (no mirror)
    let is_vec_new = |f: &Func| vec_unit && f.trait_.is_none() && f.name == "new";
    // mirrors to fixpoint (for a nested unit also those of the inner type chain, which the outer bodies call)
    let mut sig_types: Vec<String> = vec![unit.to_string()];
    {
        let mut t = unit.to_string();
        while let Some((_, inner)) = db.nested.get(&t) {
            sig_types.push(inner.clone());
            t = inner.clone();
        }
    }
    let sig_funcs: Vec<&Func> = db.funcs.iter().filter(|f| sig_types.contains(&f.ty) && allowed(f, contracts).is_ok()).collect();
    let mut sigs: HashMap<String, Mirror> = HashMap::new();
    let mut errs: HashMap<String, String> = HashMap::new();
    loop {
        let mut progress = false;
        for f in &sig_funcs {
            if sigs.contains_key(&f.mname) || is_manual(f) || (is_vec_new(f) && f.ty == unit) {
                continue;
            }
            match eval::mirror_of(db, f, &sigs) {
                Ok(m) => {
                    sigs.insert(f.mname.clone(), m);
                    errs.remove(&f.mname);
                    progress = true;
                }
                Err(e) => {
                    errs.insert(f.mname.clone(), e);
                }
            }
        }
        if !progress {
            break;
        }
    }

    for f in &todo {
        let manual = &contracts["manual"][f.id().as_str()];
        let manual_mode = manual.is_object() || is_vec_new(f);
        let m_opt = sigs.get(&f.mname);
        if !manual_mode && m_opt.is_none() {
            skipped.push(json!({"id": f.id(), "line": f.line, "reason": format!("no mirror: {}", errs.get(&f.mname).cloned().unwrap_or_default())}));
            continue;
        }
        // parameter names (independent of kinds)
        let mut pnames: Vec<String> = vec![];
        let mut recv_mut_ref = false;
        let mut bad = false;
        for a in &f.item.sig.inputs {
            match a {
                FnArg::Receiver(r) => {
                    pnames.push("self".into());
                    recv_mut_ref = r.reference.is_some() && r.mutability.is_some();
                }
                FnArg::Typed(pt) => match &*pt.pat {
                    syn::Pat::Ident(i) => pnames.push(i.ident.to_string()),
                    _ => bad = true,
                },
            }
        }
        if bad {
            skipped.push(json!({"id": f.id(), "line": f.line, "reason": "non-identifier parameter pattern"}));
            continue;
        }
        let ps: Vec<ParamSpec> = if manual_mode { vec![] } else { eval::params_of(db, f).unwrap_or_default() };
        // integer-typed names for R9
        let mut ints = HashSet::new();
        for a in &f.item.sig.inputs {
            if let FnArg::Typed(pt) = a {
                if let (syn::Pat::Ident(i), syn::Type::Path(tp)) = (&*pt.pat, &*pt.ty) {
                    if let Some(id) = tp.path.get_ident() {
                        if ["i32", "usize", "u32", "i64", "u64", "isize"].contains(&id.to_string().as_str()) {
                            ints.insert(i.ident.to_string());
                        }
                    }
                }
            }
        }
        let mut rw = Rw::new(ints);
        rw.float_unit = float_unit;
        rw.display_unit = f.trait_.as_deref() == Some("Display") || (f.ty == "Derivative" && f.name == "fmt");
        if let Some((o, i)) = db.nested.get(unit) {
            rw.nested = Some((o.clone(), unit.to_string(), i.clone()));
        }
        if f.prefix == "cf_" || f.prefix == "rf_" {
            for g in db.funcs.iter().filter(|g| g.ty == f.ty && (g.prefix == "cf_" || g.prefix == "rf_")) {
                rw.field_methods.insert(g.name.clone(), format!("{}{}", g.prefix, g.name));
            }
            for a in &f.item.sig.inputs {
                match a {
                    FnArg::Receiver(r) if r.reference.is_none() => {
                        rw.field_recv.insert("self".into());
                    }
                    FnArg::Typed(pt) => {
                        if let (syn::Pat::Ident(i), syn::Type::Path(tp)) = (&*pt.pat, &*pt.ty) {
                            let last = tp.path.segments.last().map(|s| s.ident.to_string()).unwrap_or_default();
                            if last == "Self" || last == "RealField" {
                                rw.field_recv.insert(i.ident.to_string());
                            }
                        }
                    }
                    _ => {}
                }
            }
        }
        for g in &f.impl_generics {
            if g != "T" && g != "F" {
                rw.dims.insert(g.clone());
            }
        }
        for g in f.item.sig.generics.params.iter() {
            if let syn::GenericParam::Type(t) = g {
                rw.dims.insert(t.ident.to_string());
            }
        }
        let mut block = f.item.block.clone();
        // R8: by-value `mut self`
        let mut_self_by_value = f.item.sig.inputs.iter().any(|a| matches!(a, FnArg::Receiver(r) if r.reference.is_none() && r.mutability.is_some()));
        rw.rename_self = mut_self_by_value;
        rw.visit_block_mut(&mut block);
        if let Some(e) = rw.err.clone() {
            skipped.push(json!({"id": f.id(), "line": f.line, "reason": format!("unsupported construct: {e}")}));
            continue;
        }
        let mut body = block.to_token_stream().to_string();
        let hkey = format!("{}::{}{}", f.ty, f.prefix, f.name);
        let hint = contracts["hints"][hkey.as_str()].as_str().or(if float_unit { None } else { contracts["hints"][format!("{}{}", f.prefix, f.name).as_str()].as_str() }).map(|h| {
            let h = if let Some((_, inner)) = db.nested.get(unit) {
                let depth = inner.matches("__").count() + 1;
                h.replace(".re@", &format!("{}@", ".re".repeat(depth + 1)))
            } else {
                h.to_string()
            };
            format!("proof {{ {h} }} ")
        }).unwrap_or_default();
        let hint = if let (Some((_, inner)), Some(h)) = (db.nested.get(unit), contracts["nested_hints"][f.name.as_str()].as_str()) {
            let depth = inner.matches("__").count() + 1;
            let x = format!("self{}@", ".re".repeat(depth + 1));
            format!("{hint}proof {{ {} }} ", h.replace("{x}", &x))
        } else {
            hint
        };
        if mut_self_by_value {
            body = format!("{{ {hint}let mut self_ = self; {} }}", &body[1..body.len() - 1]);
        } else if !hint.is_empty() {
            body = format!("{{ {hint}{} }}", &body[1..body.len() - 1]);
        }
        // signature
        let mut sig_params = vec![];
        let lt_self = "'b";
        let lt_rhs = "'a";
        for (i, a) in f.item.sig.inputs.iter().enumerate() {
            match a {
                FnArg::Receiver(r) => {
                    if r.reference.is_some() {
                        sig_params.push(if r.mutability.is_some() { "&mut self".to_string() } else { "&self".to_string() });
                    } else {
                        sig_params.push("self".to_string());
                    }
                }
                FnArg::Typed(pt) => {
                    let name = pnames[i].clone();
                    let ty = if f.is_std_op() && i == 1 {
                        match &f.rhs {
                            Rhs::SelfRef => format!("&{lt_rhs} {}", f.ty),
                            _ => type_to_string(&pt.ty, &mut rw),
                        }
                    } else {
                        type_to_string(&pt.ty, &mut rw)
                    };
                    sig_params.push(format!("{name}: {ty}"));
                }
            }
        }
        let ret_ty = match (&f.item.sig.output, m_opt) {
            (_, Some(m)) if !manual_mode => kind_to_type(&m.ret).replace("Sc", if float_unit { "Fp" } else { "Sc" }),
            (syn::ReturnType::Default, _) => "()".to_string(),
            (syn::ReturnType::Type(_, t), _) => {
                let s = type_to_string(t, &mut rw);
                if s == "Self" || s == "Self :: Output" {
                    f.ty.clone()
                } else {
                    s
                }
            }
        };
        let p1 = pnames.get(1).cloned().unwrap_or_default();
        // ---- contract
        let mut reqs: Vec<String> = vec![];
        let mut ens: Vec<String> = vec![];
        if manual.is_object() {
            for r in manual["requires"].as_array().cloned().unwrap_or_default() {
                reqs.push(r.as_str().unwrap_or("true").replace("{1}", &p1));
            }
            for r in manual["ensures"].as_array().cloned().unwrap_or_default() {
                ens.push(r.as_str().unwrap_or("true").replace("{1}", &p1).replace("{r}", RES));
            }
        } else if is_vec_new(f) {
            for ((p, k), n) in ti.parts.iter().zip(pnames.iter()) {
                match k {
                    PartKind::Sc => ens.push(format!("{RES}.{p}@ == {n}@")),
                    PartKind::Inner(_) => {}
                    PartKind::Deriv(..) => ens.push(format!("{RES}.{p} == {n}")),
                }
            }
        } else {
            let m = m_opt.unwrap();
            let second_kind = match ps.get(1).map(|p| &p.kind) {
                Some(Kind::Struct(_)) => "struct",
                Some(Kind::Fl) | Some(Kind::Sc) => "scalar",
                Some(Kind::Int(_)) => "int",
                _ => "none",
            };
            reqs = table_requires(contracts, f, second_kind, recv_mut_ref, &p1);
            if let Some((_, inner)) = db.nested.get(unit) {
                // the domain is a condition on the innermost real part
                let depth = inner.matches("__").count() + 1;
                let inner_re = format!("{}@", ".re".repeat(depth + 1));
                // integer exponent range: every nesting level passes exp - 3 to the level below
                let bound = (1073741888i64 - 8 * depth as i64).to_string();
                reqs = reqs.iter().map(|r| r.replace(".re@", &inner_re).replace("1073741888", &bound)).collect();
            }
            for p in &ps {
                if let Kind::Struct(t) = &p.kind {
                    if is_vec_type(db, t) {
                        reqs.push(format!("{}.wf()", if p.is_mut && p.name == "self" { "old(self)" } else { p.name.as_str() }));
                    }
                }
            }
            if f.trait_.as_deref() == Some("Clone") {
                // a trait method cannot carry a precondition: well-formedness is preserved rather than required
                reqs.clear();
                ensures_for(db, &f.mname, &m.ret, RES, "", &ps, &mut ens);
                for e in ens.iter_mut() {
                    if e.ends_with(".wf()") {
                        *e = format!("self.wf() ==> {e}");
                    }
                }
            } else if m.mutates_self {
                ensures_for(db, &f.mname, &Kind::Struct(f.ty.clone()), "final(self)", "", &ps, &mut ens);
            } else {
                ensures_for(db, &f.mname, &m.ret, RES, "", &ps, &mut ens);
            }
        }
        let has_ret = ret_ty != "()";
        let ret_decl = if has_ret { format!(" -> ({RES}: {ret_ty})") } else { String::new() };
        let ens_txt = if ens.is_empty() { String::new() } else { format!(" ensures {}", ens.join(", ")) };
        let fn_name = format!("{}{}", f.prefix, f.name);

        let start_line = exec.lines().count() + 1;
        let header = format!("// @fn {} [expanded.rs:{}-{}]\n", f.id(), f.line, f.end_line);
        exec.push_str(&header);
        iface.push_str(&header);
        let stub = "{ unimplemented!() }";
        if f.is_std_op() {
            let tr = f.trait_.clone().unwrap();
            let sn = snake(&tr);
            let self_ty = if f.self_ref { format!("&{lt_self} {}", f.ty) } else { f.ty.clone() };
            let (rhs_ty, has_rhs) = match &f.rhs {
                Rhs::None => (String::new(), false),
                Rhs::SelfOwn => (f.ty.clone(), true),
                Rhs::SelfRef => (format!("&{lt_rhs} {}", f.ty), true),
                Rhs::Sc => ("Sc".into(), true),
                Rhs::Fl => ("Fl".into(), true),
                Rhs::Other(o) => (o.clone(), true),
            };
            let mut lts = vec![];
            if matches!(f.rhs, Rhs::SelfRef) {
                lts.push(lt_rhs);
            }
            if f.self_ref {
                lts.push(lt_self);
            }
            let gen = if lts.is_empty() { String::new() } else { format!("<{}>", lts.join(", ")) };
            let targ = if has_rhs { format!("<{rhs_ty}>") } else { String::new() };
            let is_assign = tr.ends_with("Assign");
            let out_ty = if is_assign { format!("&{}", f.ty) } else { ret_ty.clone() };
            let slf = if is_assign { "&self" } else { "self" };
            let req_params = if has_rhs { format!("{slf}, {p1}: {rhs_ty}") } else { slf.to_string() };
            // in *_req the receiver is not a &mut: old(self) -> self
            let req_body = if reqs.is_empty() { "true".to_string() } else { reqs.iter().map(|r| format!("({})", r.replace("old(self)", "self"))).collect::<Vec<_>>().join(" && ") };
            let spec_impl = format!(
                "impl{gen} vstd::std_specs::ops::{tr}SpecImpl{targ} for {self_ty} {{ open spec fn obeys_{sn}_spec() -> bool {{ false }} open spec fn {sn}_req({req_params}) -> bool {{ {req_body} }} open spec fn {sn}_spec({req_params}) -> {out_ty} {{ arbitrary() }} }}\n"
            );
            exec.push_str(&spec_impl);
            iface.push_str(&spec_impl);
            let out_decl = if is_assign { String::new() } else { format!("type Output = {ret_ty}; ") };
            let head = format!("impl{gen} core::ops::{tr}{targ} for {self_ty} {{ {out_decl}");
            let sigtxt = format!("fn {fn_name}({}){ret_decl}{ens_txt}", sig_params.join(", "));
            exec.push_str(&format!("{head}{sigtxt}\n{body} }}\n"));
            iface.push_str(&format!("{head}#[verifier::external_body] {sigtxt}\n{stub} }}\n"));
        } else if f.trait_.as_deref() == Some("Clone") && manual["assume"].as_bool() == Some(true) {
            exec.push_str(&format!("impl Clone for {} {{ #[verifier::external_body] fn clone(&self){ret_decl}{ens_txt}\n{stub} }}\n", f.ty));
            iface.push_str(&format!("impl Clone for {} {{ #[verifier::external_body] fn clone(&self){ret_decl}{ens_txt}\n{stub} }}\n", f.ty));
        } else if f.trait_.as_deref() == Some("Clone") {
            exec.push_str(&format!("impl Clone for {} {{ fn clone(&self){ret_decl}{ens_txt}\n{body} }}\n", f.ty));
            iface.push_str(&format!("impl Clone for {} {{ #[verifier::external_body] fn clone(&self){ret_decl}{ens_txt}\n{stub} }}\n", f.ty));
        } else {
            let req_txt = if reqs.is_empty() { String::new() } else { format!(" requires {}", reqs.join(", ")) };
            let sigtxt = format!("pub fn {fn_name}({}){ret_decl}{req_txt}{ens_txt}", sig_params.join(", "));
            let tyname = if float_unit { "Fp".to_string() } else { f.ty.clone() };
            exec.push_str(&format!("impl {tyname} {{ {sigtxt}\n{body} }}\n"));
            iface.push_str(&format!("impl {tyname} {{ #[verifier::external_body] {sigtxt}\n{stub} }}\n"));
        }
        let end_line = exec.lines().count();
        if let (Some(m), false) = (m_opt, manual_mode) {
            mirror.push_str(&emit_mirror(f, m));
        }
        // contract variants: the same verbatim body checked under a different (wider / special-point) domain
        if !manual_mode && !float_unit && db.nested.get(unit).is_none() && !f.is_std_op() && f.trait_.as_deref() != Some("Clone") {
            if let Some(vars) = contracts["variants"][format!("{}{}", f.prefix, f.name).as_str()].as_array() {
                for v in vars {
                    let suffix = v["suffix"].as_str().unwrap_or("v");
                    let order = contracts["order"][f.ty.as_str()].as_i64().unwrap_or(0);
                    let mut vreqs: Vec<String> = v["requires"]
                        .as_array()
                        .map(|a| a.iter().filter_map(|r| r.as_str()).map(|r| r.replace("{0}", "self").replace("{1}", &p1).replace("{order}", &order.to_string())).collect())
                        .unwrap_or_default();
                    for p in &ps {
                        if let Kind::Struct(t) = &p.kind {
                            if is_vec_type(db, t) {
                                vreqs.push(format!("{}.wf()", p.name));
                            }
                        }
                    }
                    let req_txt = if vreqs.is_empty() { String::new() } else { format!(" requires {}", vreqs.join(", ")) };
                    let vstart = exec.lines().count() + 1;
                    exec.push_str(&format!("// @fn {}#{} [expanded.rs:{}-{}]\n", f.id(), suffix, f.line, f.end_line));
                    exec.push_str(&format!("impl {} {{ pub fn {fn_name}__{suffix}({}){ret_decl}{req_txt}{ens_txt}\n{body} }}\n", f.ty, sig_params.join(", ")));
                    let vend = exec.lines().count();
                    meta_fns.push(json!({
                        "id": format!("{}#{}", f.id(), suffix), "ty": f.ty, "trait": f.trait_, "name": f.name, "variant": suffix,
                        "mname": format!("{}#{}", f.mname, suffix), "self_ref": f.self_ref, "rhs": format!("{:?}", f.rhs),
                        "src_line": f.line, "src_end_line": f.end_line, "gen_line": vstart, "gen_end_line": vend,
                        "params": [], "outs": [], "requires": vreqs, "mutates_self": false, "from_default": f.from_default, "rewrites": {},
                        "props": v["props"].clone(), "what": v["what"].clone(), "hinted": !hint.is_empty(),
                    }));
                }
            }
        }
        for (k, v) in &rw.counts {
            *rule_counts.entry(k.to_string()).or_insert(0) += v;
        }
        meta_fns.push(json!({
            "id": f.id(),
            "ty": f.ty,
            "trait": f.trait_,
            "name": f.name,
            "mname": f.mname,
            "self_ref": f.self_ref,
            "rhs": format!("{:?}", f.rhs),
            "src_line": f.line,
            "src_end_line": f.end_line,
            "gen_line": start_line,
            "gen_end_line": end_line,
            "params": m_opt.map(|m| m.params.iter().map(|(n,t)| json!([n,t])).collect::<Vec<_>>()).unwrap_or_default(),
            "outs": m_opt.map(|m| m.outs.iter().map(|(p,_,t)| json!([p,t])).collect::<Vec<_>>()).unwrap_or_default(),
            "requires": reqs,
            "manual": manual_mode,
            "hinted": !hint.is_empty(),
            "mutates_self": m_opt.map(|m| m.mutates_self).unwrap_or(false),
            "from_default": f.from_default,
            "rewrites": rw.counts,
            "props": manual["props"].clone(),
            "what": manual["what"].clone(),
        }));
    }
    let leaves: Vec<String> = if unit == "Derivative" { vec![] } else { vec_leaves(db, unit).into_iter().map(|(n, _, _)| n).collect() };
    let outs: Vec<String> = if unit == "Derivative" { vec![] } else { vec_outs(db, unit).into_iter().map(|(n, _, _)| n).collect() };
    UnitOut {
        exec,
        iface,
        mirror,
        meta: json!({
            "unit": unit,
            "parts": ti.parts.iter().map(|(n,k)| json!([n, format!("{:?}", k)])).collect::<Vec<_>>(),
            "leaves": leaves,
            "outs": outs,
            "functions": meta_fns,
            "skipped": skipped,
            "rewrite_rule_counts": rule_counts,
        }),
    }
}
