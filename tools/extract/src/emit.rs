//! Emission of the Verus exec unit and of the mirror spec functions for one type.
use crate::db::{Db, Func, PartKind, Rhs, INHERENT_TRAITS, STD_OPS};
use crate::eval::{self, Kind, Mirror, ParamSpec};
use crate::rewrite::Rw;
use quote::ToTokens;
use serde_json::json;
use std::collections::{BTreeMap, HashMap, HashSet};
use syn::visit_mut::VisitMut;
use syn::FnArg;

pub struct UnitOut {
    pub exec: String,
    pub mirror: String,
    pub meta: serde_json::Value,
}

fn allowed(f: &Func, contracts: &serde_json::Value) -> Result<(), String> {
    if let Some(sk) = contracts["skip_methods"].as_array() {
        if sk.iter().any(|s| s.as_str() == Some(f.name.as_str())) {
            return Err("skip list".into());
        }
    }
    match f.trait_.as_deref() {
        None => Ok(()),
        Some(t) if STD_OPS.contains(&t) || INHERENT_TRAITS.contains(&t) || t == "Clone" => Ok(()),
        Some(t) => Err(format!("trait {t} not in this unit")),
    }
}

fn snake(tr: &str) -> String {
    let mut s = String::new();
    for (i, c) in tr.chars().enumerate() {
        if c.is_uppercase() {
            if i > 0 {
                s.push('_');
            }
            s.push(c.to_ascii_lowercase());
        } else {
            s.push(c);
        }
    }
    s
}

fn kind_to_type(k: &Kind) -> String {
    match k {
        Kind::Sc => "Sc".into(),
        Kind::Fl => "Fl".into(),
        Kind::Int(t) => t.clone(),
        Kind::Bool => "bool".into(),
        Kind::Struct(t) => t.clone(),
        Kind::Unit => "()".into(),
        Kind::Tuple(v) => format!("({})", v.iter().map(kind_to_type).collect::<Vec<_>>().join(", ")),
        Kind::Opt(k) => format!("Option<{}>", kind_to_type(k)),
    }
}

/// accessor expressions (spec-level views) for a value of kind `k` rooted at expression `root`
fn views(db: &Db, k: &Kind, root: &str, out: &mut Vec<String>) {
    match k {
        Kind::Sc | Kind::Fl => out.push(format!("{root}@")),
        Kind::Int(_) => out.push(format!("({root} as int)")),
        Kind::Bool => out.push(root.to_string()),
        Kind::Unit => {}
        Kind::Struct(t) => {
            for (p, _) in &db.types[t].parts {
                out.push(format!("{root}.{p}@"));
            }
        }
        Kind::Tuple(v) => {
            for (i, k) in v.iter().enumerate() {
                views(db, k, &format!("{root}.{i}"), out);
            }
        }
        Kind::Opt(_) => {}
    }
}

fn out_accessors(db: &Db, k: &Kind, root: &str, prefix: &str, out: &mut Vec<(String, String)>) {
    let key = |s: &str| if prefix.is_empty() { s.to_string() } else if s.is_empty() { prefix.to_string() } else { format!("{prefix}_{s}") };
    match k {
        Kind::Sc | Kind::Fl => out.push((key(if prefix.is_empty() { "ret" } else { "" }), format!("{root}@"))),
        Kind::Int(_) => out.push((key(if prefix.is_empty() { "ret" } else { "" }), format!("({root} as int)"))),
        Kind::Bool => out.push((key(if prefix.is_empty() { "ret" } else { "" }), root.to_string())),
        Kind::Unit => {}
        Kind::Struct(t) => {
            for (p, _) in &db.types[t].parts {
                out.push((key(p), format!("{root}.{p}@")));
            }
        }
        Kind::Tuple(v) => {
            for (i, k) in v.iter().enumerate() {
                out_accessors(db, k, &format!("{root}.{i}"), &key(&i.to_string()), out);
            }
        }
        Kind::Opt(_) => {}
    }
}

fn requires_for(contracts: &serde_json::Value, f: &Func, ps: &[ParamSpec]) -> Vec<String> {
    let mut v = vec![];
    let entry = &contracts["requires"][f.name.as_str()];
    if entry.is_null() {
        return v;
    }
    let cat = match ps.get(1).map(|p| &p.kind) {
        Some(Kind::Struct(_)) => "struct",
        Some(Kind::Fl) | Some(Kind::Sc) => "scalar",
        Some(Kind::Int(_)) => "int",
        _ => "none",
    };
    let list = if entry.is_object() { &entry[cat] } else { entry };
    let mutself = ps.first().map(|p| p.is_mut).unwrap_or(false);
    let s0 = if mutself { "old(self)".to_string() } else { "self".to_string() };
    let p1 = ps.get(1).map(|p| p.name.clone()).unwrap_or_default();
    if let Some(a) = list.as_array() {
        for r in a {
            if let Some(s) = r.as_str() {
                v.push(s.replace("{0}", &s0).replace("{1}", &p1));
            }
        }
    }
    v
}

fn emit_mirror(f: &Func, m: &Mirror) -> String {
    let mut s = String::new();
    let params = m.params.iter().map(|(n, t)| format!("{}: {t}", spec_ident(n))).collect::<Vec<_>>().join(", ");
    let index: HashMap<&str, usize> = m.lets.iter().enumerate().map(|(i, (n, _, _))| (n.as_str(), i)).collect();
    for (part, e, sort) in &m.outs {
        // dead-let elimination: keep only the bindings this part depends on
        let mut needed = vec![false; m.lets.len()];
        let mut stack: Vec<usize> = let_refs(e).iter().filter_map(|n| index.get(n.as_str()).copied()).collect();
        while let Some(i) = stack.pop() {
            if needed[i] {
                continue;
            }
            needed[i] = true;
            for n in let_refs(&m.lets[i].1) {
                if let Some(&j) = index.get(n.as_str()) {
                    if !needed[j] {
                        stack.push(j);
                    }
                }
            }
        }
        s.push_str(&format!("#[verifier::inline] pub open spec fn {}_{}({}) -> {} {{ ", f.mname, part, params, sort));
        // let-bound names are made unique per (function, part): Verus' inliner requires distinct binders
        let uniq = |x: &str| rename_lets(x, &format!("{}_{}", f.mname, part));
        for (i, (n, e, _)) in m.lets.iter().enumerate() {
            if needed[i] {
                s.push_str(&format!("let {} = {}; ", uniq(n), uniq(e)));
            }
        }
        s.push_str(&uniq(e));
        s.push_str(" }\n");
    }
    s
}

/// names of the form t_<digits> occurring in an expression
fn let_refs(e: &str) -> Vec<String> {
    let b = e.as_bytes();
    let mut out = vec![];
    let mut i = 0;
    while i < b.len() {
        let prev_ok = i == 0 || !(b[i - 1].is_ascii_alphanumeric() || b[i - 1] == b'_');
        if prev_ok && b[i] == b't' && i + 2 < b.len() && b[i + 1] == b'_' && b[i + 2].is_ascii_digit() {
            let mut j = i + 2;
            while j < b.len() && b[j].is_ascii_digit() {
                j += 1;
            }
            let next_ok = j == b.len() || !(b[j].is_ascii_alphanumeric() || b[j] == b'_');
            if next_ok {
                out.push(e[i..j].to_string());
                i = j;
                continue;
            }
        }
        i += 1;
    }
    out
}

fn rename_lets(e: &str, suffix: &str) -> String {
    // replace every token of the form t_<digits> by t_<digits>_<suffix>
    let b = e.as_bytes();
    let mut out = String::with_capacity(e.len() + 16);
    let mut i = 0;
    while i < b.len() {
        let prev_ok = i == 0 || !(b[i - 1].is_ascii_alphanumeric() || b[i - 1] == b'_');
        if prev_ok && b[i] == b't' && i + 2 < b.len() + 0 && b[i + 1] == b'_' && i + 2 < b.len() && b[i + 2].is_ascii_digit() {
            let mut j = i + 2;
            while j < b.len() && b[j].is_ascii_digit() {
                j += 1;
            }
            let next_ok = j == b.len() || !(b[j].is_ascii_alphanumeric() || b[j] == b'_');
            if next_ok {
                out.push_str(&e[i..j]);
                out.push('_');
                out.push_str(suffix);
                i = j;
                continue;
            }
        }
        out.push(b[i] as char);
        i += 1;
    }
    out
}
fn spec_ident(n: &str) -> String {
    n.to_string()
}
fn fix_self(e: &str) -> String {
    e.to_string()
}

fn type_to_string(t: &syn::Type, rw: &mut Rw) -> String {
    let mut t = t.clone();
    rw.visit_type_mut(&mut t);
    t.to_token_stream().to_string()
}

pub fn emit_unit(db: &Db, contracts: &serde_json::Value, unit: &str) -> UnitOut {
    let ti = &db.types[unit];
    let mut exec = String::new();
    let mut mirror = String::new();
    let mut meta_fns = vec![];
    let mut skipped = vec![];
    let mut rule_counts: BTreeMap<String, usize> = BTreeMap::new();

    // struct definition (R1: PhantomData field and generics dropped)
    exec.push_str(&format!("// ---- unit {unit}: extracted from expanded source line {} ----\n", ti.line));
    let fields = ti
        .parts
        .iter()
        .map(|(n, k)| match k {
            PartKind::Sc => format!("pub {n}: Sc"),
            PartKind::Deriv(..) => format!("pub {n}: Derivative"),
        })
        .collect::<Vec<_>>()
        .join(", ");
    exec.push_str(&format!("pub struct {unit} {{ {fields} }}\n"));

    // candidate functions
    let cands: Vec<&Func> = db.funcs.iter().filter(|f| f.ty == unit).collect();
    let mut todo: Vec<&Func> = vec![];
    for f in cands {
        match allowed(f, contracts) {
            Ok(()) => todo.push(f),
            Err(why) => skipped.push(json!({"id": f.id(), "line": f.line, "reason": why})),
        }
    }
    // mirrors to fixpoint
    let mut sigs: HashMap<String, Mirror> = HashMap::new();
    let mut errs: HashMap<String, String> = HashMap::new();
    loop {
        let mut progress = false;
        for f in &todo {
            if sigs.contains_key(&f.mname) {
                continue;
            }
            match eval::mirror_of(db, f, &sigs) {
                Ok(m) => {
                    sigs.insert(f.mname.clone(), m);
                    errs.remove(&f.mname);
                    progress = true;
                }
                Err(e) => {
                    errs.insert(f.mname.clone(), e);
                }
            }
        }
        if !progress {
            break;
        }
    }

    // group trait impls: each std-op function is its own impl; inherent functions are emitted one impl each
    for f in &todo {
        let Some(m) = sigs.get(&f.mname) else {
            skipped.push(json!({"id": f.id(), "line": f.line, "reason": format!("no mirror: {}", errs.get(&f.mname).cloned().unwrap_or_default())}));
            continue;
        };
        let ps = match eval::params_of(db, f) {
            Ok(p) => p,
            Err(e) => {
                skipped.push(json!({"id": f.id(), "line": f.line, "reason": e}));
                continue;
            }
        };
        // integer-typed names for R9
        let mut ints = HashSet::new();
        for p in &ps {
            if matches!(p.kind, Kind::Int(_)) {
                ints.insert(p.name.clone());
            }
        }
        let mut rw = Rw::new(ints);
        let mut block = f.item.block.clone();
        // R8: by-value `mut self`
        let mut_self_by_value = f.item.sig.inputs.iter().any(|a| matches!(a, FnArg::Receiver(r) if r.reference.is_none() && r.mutability.is_some()));
        rw.rename_self = mut_self_by_value;
        rw.visit_block_mut(&mut block);
        if let Some(e) = rw.err.clone() {
            skipped.push(json!({"id": f.id(), "line": f.line, "reason": format!("unsupported construct: {e}")}));
            continue;
        }
        let mut body = block.to_token_stream().to_string();
        let hint = contracts["hints"][f.name.as_str()].as_str().map(|h| format!("proof {{ {h} }} ")).unwrap_or_default();
        if mut_self_by_value {
            body = format!("{{ {hint}let mut self_ = self; {} }}", &body[1..body.len() - 1]);
        } else if !hint.is_empty() {
            body = format!("{{ {hint}{} }}", &body[1..body.len() - 1]);
        }
        // signature
        let mut sig_params = vec![];
        let lt_self = "'b";
        let lt_rhs = "'a";
        for (i, a) in f.item.sig.inputs.iter().enumerate() {
            match a {
                FnArg::Receiver(r) => {
                    if r.reference.is_some() {
                        sig_params.push(if r.mutability.is_some() { "&mut self".to_string() } else { "&self".to_string() });
                    } else {
                        sig_params.push("self".to_string());
                    }
                }
                FnArg::Typed(pt) => {
                    let name = ps[i].name.clone();
                    let ty = if f.is_std_op() && i == 1 {
                        match &f.rhs {
                            Rhs::SelfRef => format!("&{lt_rhs} {}", f.ty),
                            _ => type_to_string(&pt.ty, &mut rw),
                        }
                    } else {
                        type_to_string(&pt.ty, &mut rw)
                    };
                    sig_params.push(format!("{name}: {ty}"));
                }
            }
        }
        let ret_ty = kind_to_type(&m.ret);
        // views of inputs
        let mut in_views = vec![];
        for p in &ps {
            let root = if p.is_mut && p.name == "self" { "old(self)".to_string() } else { p.name.clone() };
            views(db, &p.kind, &root, &mut in_views);
        }
        let args = in_views.join(", ");
        let mut ens = vec![];
        let mut accs = vec![];
        if m.mutates_self {
            out_accessors(db, &Kind::Struct(f.ty.clone()), "final(self)", "", &mut accs);
        } else {
            out_accessors(db, &m.ret, "r", "", &mut accs);
        }
        for (part, acc) in &accs {
            ens.push(format!("{acc} == {}_{}({})", f.mname, part, args));
        }
        let reqs = requires_for(contracts, f, &ps);
        let ret_decl = if m.ret == Kind::Unit { String::new() } else { format!(" -> (r: {ret_ty})") };
        let ens_txt = if ens.is_empty() { String::new() } else { format!(" ensures {}", ens.join(", ")) };
        let fn_name = f.name.clone();

        let start_line = exec.lines().count() + 1;
        exec.push_str(&format!("// @fn {} [expanded.rs:{}-{}]\n", f.id(), f.line, f.end_line));
        if f.is_std_op() {
            let tr = f.trait_.clone().unwrap();
            let sn = snake(&tr);
            let self_ty = if f.self_ref { format!("&{lt_self} {}", f.ty) } else { f.ty.clone() };
            let (rhs_ty, has_rhs) = match &f.rhs {
                Rhs::None => (String::new(), false),
                Rhs::SelfOwn => (f.ty.clone(), true),
                Rhs::SelfRef => (format!("&{lt_rhs} {}", f.ty), true),
                Rhs::Sc => ("Sc".into(), true),
                Rhs::Fl => ("Fl".into(), true),
                Rhs::Other(o) => (o.clone(), true),
            };
            let mut lts = vec![];
            if matches!(f.rhs, Rhs::SelfRef) {
                lts.push(lt_rhs);
            }
            if f.self_ref {
                lts.push(lt_self);
            }
            let gen = if lts.is_empty() { String::new() } else { format!("<{}>", lts.join(", ")) };
            let targ = if has_rhs { format!("<{rhs_ty}>") } else { String::new() };
            let is_assign = tr.ends_with("Assign");
            let out_ty = if is_assign { format!("&{}", f.ty) } else { ret_ty.clone() };
            let rhs_name = ps.get(1).map(|p| p.name.clone()).unwrap_or_default();
            let slf = if tr.ends_with("Assign") { "&self" } else { "self" };
            let req_params = if has_rhs { format!("{slf}, {rhs_name}: {rhs_ty}") } else { slf.to_string() };
            // in *_req the receiver is by value: old(self) -> self
            let req_body = if reqs.is_empty() { "true".to_string() } else { reqs.iter().map(|r| format!("({})", r.replace("old(self)", "self"))).collect::<Vec<_>>().join(" && ") };
            exec.push_str(&format!(
                "impl{gen} vstd::std_specs::ops::{tr}SpecImpl{targ} for {self_ty} {{ open spec fn obeys_{sn}_spec() -> bool {{ false }} open spec fn {sn}_req({req_params}) -> bool {{ {req_body} }} open spec fn {sn}_spec({req_params}) -> {out_ty} {{ arbitrary() }} }}\n"
            ));
            let out_decl = if is_assign { String::new() } else { format!("type Output = {ret_ty}; ") };
            exec.push_str(&format!(
                "impl{gen} core::ops::{tr}{targ} for {self_ty} {{ {out_decl}fn {fn_name}({}){ret_decl}{ens_txt}\n{body} }}\n",
                sig_params.join(", ")
            ));
        } else if f.trait_.as_deref() == Some("Clone") {
            exec.push_str(&format!("impl Clone for {} {{ fn clone(&self){ret_decl}{ens_txt}\n{body} }}\n", f.ty));
        } else {
            let req_txt = if reqs.is_empty() { String::new() } else { format!(" requires {}", reqs.join(", ")) };
            exec.push_str(&format!(
                "impl {} {{ pub fn {fn_name}({}){ret_decl}{req_txt}{ens_txt}\n{body} }}\n",
                f.ty,
                sig_params.join(", ")
            ));
        }
        let end_line = exec.lines().count();
        mirror.push_str(&emit_mirror(f, m));
        // contract variants: the same verbatim body checked under a different (wider / special-point) domain
        if !f.is_std_op() && f.trait_.as_deref() != Some("Clone") {
            if let Some(vars) = contracts["variants"][f.name.as_str()].as_array() {
                for v in vars {
                    let suffix = v["suffix"].as_str().unwrap_or("v");
                    let order = contracts["order"][f.ty.as_str()].as_i64().unwrap_or(0);
                    let p1 = ps.get(1).map(|p| p.name.clone()).unwrap_or_default();
                    let vreqs: Vec<String> = v["requires"].as_array().map(|a| a.iter().filter_map(|r| r.as_str()).map(|r| r.replace("{0}", "self").replace("{1}", &p1).replace("{order}", &order.to_string())).collect()).unwrap_or_default();
                    let req_txt = if vreqs.is_empty() { String::new() } else { format!(" requires {}", vreqs.join(", ")) };
                    let vstart = exec.lines().count() + 1;
                    exec.push_str(&format!("// @fn {}#{} [expanded.rs:{}-{}]\n", f.id(), suffix, f.line, f.end_line));
                    exec.push_str(&format!(
                        "impl {} {{ pub fn {fn_name}__{suffix}({}){ret_decl}{req_txt}{ens_txt}\n{body} }}\n",
                        f.ty,
                        sig_params.join(", ")
                    ));
                    let vend = exec.lines().count();
                    meta_fns.push(json!({
                        "id": format!("{}#{}", f.id(), suffix), "ty": f.ty, "trait": f.trait_, "name": f.name, "variant": suffix,
                        "mname": format!("{}#{}", f.mname, suffix), "self_ref": f.self_ref, "rhs": format!("{:?}", f.rhs),
                        "src_line": f.line, "src_end_line": f.end_line, "gen_line": vstart, "gen_end_line": vend,
                        "params": [], "outs": [], "requires": vreqs, "mutates_self": m.mutates_self, "from_default": f.from_default, "rewrites": {},
                        "props": v["props"].clone(), "what": v["what"].clone(),
                    }));
                }
            }
        }
        for (k, v) in &rw.counts {
            *rule_counts.entry(k.to_string()).or_insert(0) += v;
        }
        meta_fns.push(json!({
            "id": f.id(),
            "ty": f.ty,
            "trait": f.trait_,
            "name": f.name,
            "mname": f.mname,
            "self_ref": f.self_ref,
            "rhs": format!("{:?}", f.rhs),
            "src_line": f.line,
            "src_end_line": f.end_line,
            "gen_line": start_line,
            "gen_end_line": end_line,
            "params": m.params.iter().map(|(n,t)| json!([n,t])).collect::<Vec<_>>(),
            "outs": m.outs.iter().map(|(p,_,t)| json!([p,t])).collect::<Vec<_>>(),
            "requires": reqs,
            "mutates_self": m.mutates_self,
            "from_default": f.from_default,
            "rewrites": rw.counts,
        }));
    }
    UnitOut {
        exec,
        mirror,
        meta: json!({
            "unit": unit,
            "parts": ti.parts.iter().map(|(n,k)| json!([n, format!("{:?}", k)])).collect::<Vec<_>>(),
            "functions": meta_fns,
            "skipped": skipped,
            "rewrite_rule_counts": rule_counts,
        }),
    }
}
